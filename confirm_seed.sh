#!/bin/bash
# ./confirm_seed.sh <prop> <k> : confirm seed /tmp/seed-out/<prop>/change-<k> in a scratch worktree
# (compiles, stable-pass suite unchanged, demo passes without / fails with) and, if confirmed,
# store it as /verif/seeded/<prop>-<k>/.
set -u
PROP=$1; K=$2
SRC=/tmp/seed-out/$PROP/change-$K
ID=$PROP-$K
WT=/tmp/confirm-$ID
export GOFLAGS=-mod=mod GOPROXY=off GOSUMDB=off GOTOOLCHAIN=local
[ -f "$SRC/patch.diff" ] || { echo "$ID: no patch"; exit 2; }
git -C /repo worktree remove --force $WT 2>/dev/null; rm -rf $WT
git -C /repo worktree add --detach $WT HEAD -q || exit 2
trap 'git -C /repo worktree remove --force '$WT' 2>/dev/null; rm -rf '$WT EXIT
cd $WT
LOG=/tmp/confirm-$ID.log; : > $LOG
# demo placement: every *_test.go in demo/ goes where its README/RUN says; default by package clause
place_demo() {
  for f in $SRC/demo/*_test.go $SRC/demo/*/*_test.go; do
    [ -f "$f" ] || continue
    pkg=$(grep -m1 '^package ' "$f" | awk '{print $2}')
    dest=$(grep -rhoE "(proxy|transport|interceptor|proto|encryption|common|config|auth|collect|cmd|endtoendtest|logging|metrics)[a-z_/0-9]*/$(basename $f)" $SRC/README.md $SRC/demo/RUN.txt $SRC/demo/*.md 2>/dev/null | head -1)
    if [ -z "$dest" ]; then
      case "$pkg" in
        proxy|proxy_test) dest=proxy/$(basename $f);; mux|mux_test) dest=transport/mux/$(basename $f);; session) dest=transport/mux/session/$(basename $f);;
        grpcutil|grpcutil_test) dest=transport/grpcutil/$(basename $f);; interceptor|interceptor_test) dest=interceptor/$(basename $f);; compat|compat_test) dest=proto/compat/$(basename $f);;
        encryption|encryption_test) dest=encryption/$(basename $f);; common|common_test) dest=common/$(basename $f);; config|config_test) dest=config/$(basename $f);; auth) dest=auth/$(basename $f);; collect) dest=collect/$(basename $f);;
        *) dest=proxy/$(basename $f);;
      esac
    fi
    mkdir -p $(dirname $dest); cp "$f" "$dest"; echo "$dest"
  done
}
DEMOS=$(place_demo)
[ -n "$DEMOS" ] || { echo "$ID: no demo test found (manual confirmation needed)"; exit 3; }
PKGS=$(for d in $DEMOS; do echo ./$(dirname $d)/; done | sort -u)
RUNRE=$(grep -hoE 'func (Test[A-Za-z0-9_]+)' $DEMOS | awk '{print $2}' | paste -sd'|')
echo "demo files: $DEMOS ; pkgs: $PKGS ; run: $RUNRE" >> $LOG
# 1. demo without patch
go1.26 test -vet=off -count=1 -run "^($RUNRE)\$" $PKGS >> $LOG 2>&1; WITHOUT=$?
# 2. apply patch
git apply $SRC/patch.diff >> $LOG 2>&1 || { echo "$ID: patch does not apply to HEAD"; exit 4; }
go1.26 build ./... >> $LOG 2>&1 || { echo "$ID: does not compile"; exit 5; }
go1.26 test -vet=off -count=1 -run "^($RUNRE)\$" $PKGS >> $LOG 2>&1; WITH=$?
# 3. suite with patch, demo removed
rm -f $DEMOS
go1.26 test -json -vet=off -count=1 -timeout 25m ./... > /tmp/confirm-$ID.json 2>/dev/null
SUITE=$(python3 - /tmp/confirm-$ID.json <<'PY'
import json,sys
res={}
for ln in open(sys.argv[1]):
    try: e=json.loads(ln)
    except Exception: continue
    if e.get("Test") and e.get("Action") in ("pass","fail","skip"): res[e["Package"]+"::"+e["Test"]]=e["Action"]
want=json.load(open("/root/.vp/BASELINE.json"))["stable_pass"]
bad=[t for t in want if res.get(t)!="pass"]
print("%d/%d" % (len(want)-len(bad),len(want)))
PY
)
rm -f /tmp/confirm-$ID.json
echo "$ID: demo without patch exit=$WITHOUT, with patch exit=$WITH, stable-pass suite with patch: $SUITE"
if [ $WITHOUT -eq 0 ] && [ $WITH -ne 0 ] && [ "$SUITE" = "544/544" ]; then
  D=/verif/seeded/$ID; rm -rf $D; mkdir -p $D/demo
  cp $SRC/patch.diff $D/; cp -r $SRC/demo/. $D/demo/; cp $SRC/README.md $D/ 2>/dev/null
  python3 - "$D" "${PROP%r[0-9]}" "$DEMOS" "$RUNRE" "$SUITE" <<'PY'
import json,sys,re
d,prop,demos,runre,suite=sys.argv[1:6]
readme=open(d+"/README.md").read() if __import__("os").path.exists(d+"/README.md") else ""
meta={"seed_id":d.split("/")[-1],"breaks_property":prop,"source":"independent sub-agent given only the property text and a scratch worktree",
 "needs_to_manifest":"see README.md (written by the sub-agent)","demo_files":demos.split(),"demo_run":"go1.26 test -vet=off -count=1 -run '^(%s)$' <pkg>"%runre,
 "confirmed":{"compiles":True,"demo_without_patch":"pass","demo_with_patch":"fail","stable_pass_suite_with_patch":suite,"how":"/verif/confirm_seed.sh in a scratch worktree of /repo HEAD"},
 "detected_by":[]}
json.dump(meta,open(d+"/meta.json","w"),indent=1)
PY
  echo "$ID: CONFIRMED -> $D"
else
  echo "$ID: NOT CONFIRMED (see $LOG)"
fi
