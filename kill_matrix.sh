#!/bin/bash
# ./kill_matrix.sh [ids...] : apply every seeded change to /repo in turn, run the quick check of the property it
# breaks, revert, and write /verif/seeded/KILL_MATRIX.md (development aid; never leaves /repo modified)
cd "$(dirname "$0")"
git -C /repo diff --quiet || { echo "/repo has uncommitted changes"; exit 2; }
IDS=${@:-$(ls seeded | grep -E '^C[0-9]+(r[0-9]+)?-[0-9]+$')}
OUT=seeded/KILL_MATRIX.md
TMP=$(mktemp)
for id in $IDS; do
  prop=$(jq -r .breaks_property seeded/$id/meta.json)
  if ! git -C /repo apply --check $PWD/seeded/$id/patch.diff 2>/dev/null; then echo "| $id | $prop | patch no longer applies | - |" >> $TMP; continue; fi
  git -C /repo apply $PWD/seeded/$id/patch.diff
  VERIF_EVIDENCE_DIR=/verif/.build/scratch-evidence ./run $prop quick > .build/kill-$id.out 2>&1; rc=$?
  git -C /repo checkout -q -- . ; git -C /repo clean -fdq
  sig=$(grep -m1 'sig=' .build/kill-$id.out | sed 's/.*sig=//' | cut -c1-110)
  nv=$(grep -c '^VIOLATION' .build/kill-$id.out)
  verdict="MISSED"; [ $rc -eq 1 ] && verdict="caught"; [ $rc -ge 2 ] && verdict="check error (rc=$rc)"
  if [ "$verdict" = "MISSED" ]; then
    # a change filed under one property that in fact breaks another one: meta.json may name the checks to consult
    for other in $(jq -r '.also_check[]?' seeded/$id/meta.json); do
      git -C /repo apply $PWD/seeded/$id/patch.diff
      VERIF_EVIDENCE_DIR=/verif/.build/scratch-evidence ./run $other quick > .build/kill-$id-$other.out 2>&1; rc2=$?
      git -C /repo checkout -q -- . ; git -C /repo clean -fdq
      if [ $rc2 -eq 1 ]; then
        verdict="caught by $other (own property holds, see meta.json note)"; sig=$(grep -m1 'sig=' .build/kill-$id-$other.out | sed 's/.*sig=//' | cut -c1-110); nv=$(grep -c '^VIOLATION' .build/kill-$id-$other.out); break
      fi
    done
  fi
  echo "| $id | $prop | $verdict ($nv violation lines) | \`$sig\` |" >> $TMP
  python3 - $id $prop "$verdict" "$sig" <<'PY'
import json,sys
p='/verif/seeded/%s/meta.json'%sys.argv[1]
m=json.load(open(p)); m['detected_by']=[{'check':sys.argv[2]+' quick','result':sys.argv[3],'first_signature':sys.argv[4]}]; json.dump(m,open(p,'w'),indent=1)
PY
  echo "$id $prop $verdict"
done
# rows of seeds not re-run this time are kept
if [ -f $OUT ]; then grep -E '^\| C[0-9]' $OUT | while IFS= read -r row; do rid=$(echo "$row" | awk -F'|' '{gsub(/ /,"",$2); print $2}'); grep -q "^| $rid |" $TMP || echo "$row" >> $TMP; done; fi
{ echo "# Seeded changes vs checks (quick tier, VERIF_SEED=${VERIF_SEED:-1})"; echo; echo "| seed | breaks | result | first signature |"; echo "|---|---|---|---|"; sort $TMP; } > $OUT
rm -f $TMP
