#!/bin/bash
# ./try_seed.sh <patch.diff> <Cxx> [tier]  : apply a patch to /repo, run one check, revert.
set -u
P=$1; C=$2; T=${3:-quick}
cd /repo || exit 2
git diff --quiet || { echo "/repo has uncommitted changes"; exit 2; }
git apply "$P" || { echo "patch does not apply"; exit 2; }
trap 'git -C /repo checkout -- . ; git -C /repo clean -fdq' EXIT
cd /verif && VERIF_EVIDENCE_DIR=/verif/.build/scratch-evidence ./run "$C" "$T"
echo "exit=$?"
