#!/bin/bash
# Offline setup after a fresh restore: build the driver and prime the Go build cache for
# every engine (plain and -race variants) so that the checks themselves start fast.
set -u
cd "$(dirname "$0")"
export GOFLAGS=-mod=mod GOPROXY=off GOSUMDB=off GOTOOLCHAIN=local
GO=${VERIF_GO:-go1.26}
mkdir -p bin .build evidence
( cd harness && $GO build -o ../bin/driver ./cmd/driver ) || exit 1
( cd harness && $GO build -o ../bin/gofail go.etcd.io/gofail ) || echo "note: gofail CLI not built (only the C08 thorough failpoint variant needs it)"
./bin/driver --prime || exit 1
echo "setup done"
