#!/bin/bash
# ./sweep.sh [tier] [seed...] : run every registered check, print exit codes (development aid)
cd "$(dirname "$0")"
TIER=${1:-quick}; shift
SEEDS=${@:-1}
for seed in $SEEDS; do
  for c in $(jq -r '.checks[].property_id' MANIFEST.json); do
    t0=$(date +%s)
    VERIF_SEED=$seed ./run $c $TIER > .build/sweep-$c-$seed.out 2>&1; rc=$?
    echo "seed=$seed $c rc=$rc $(( $(date +%s) - t0 ))s $(grep -c '^VIOLATION' .build/sweep-$c-$seed.out) violations $(grep -c '^KNOWN-FINDING' .build/sweep-$c-$seed.out) known $(grep '^CHECK-ERROR' .build/sweep-$c-$seed.out | head -1 | cut -c1-150)"
  done
done
