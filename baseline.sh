#!/bin/bash
# Runs the repository's own test suite with the verif guard OFF (no tag, no overlay) and
# compares with the stable-pass list in /root/.vp/BASELINE.json.
set -u
cd "$(dirname "$0")"
mkdir -p .build
export GOFLAGS=-mod=mod
OUT=$(pwd)/.build/baseline.gotest.json
if go version 2>/dev/null | grep -q 'go1\.2[6-9]'; then GO=go; else GO=go1.26; export GOTOOLCHAIN=local; fi
( cd /repo && $GO test -json -vet=off -count=1 -timeout 25m ./... ) > "$OUT" 2>/dev/null
python3 - "$OUT" <<'PY'
import json,sys
res={}
for ln in open(sys.argv[1]):
    try: e=json.loads(ln)
    except Exception: continue
    if e.get("Test") and e.get("Action") in ("pass","fail","skip"):
        res[e["Package"]+"::"+e["Test"]]=e["Action"]
try:
    want=json.load(open("/root/.vp/BASELINE.json"))["stable_pass"]
except Exception:
    want=[k for k,v in res.items() if v=="pass"]
bad=[t for t in want if res.get(t)!="pass"]
print(f"baseline (guard off): {len(want)-len(bad)}/{len(want)} stable-pass tests passed")
for t in bad[:40]: print("  NOT PASSING:",t,res.get(t))
sys.exit(1 if bad else 0)
PY
