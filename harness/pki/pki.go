// Package pki: an in-process certificate factory for the TLS engines.
package pki

import (
	"crypto/ecdsa"
	"crypto/elliptic"
	"crypto/rand"
	"crypto/tls"
	"crypto/x509"
	"crypto/x509/pkix"
	"encoding/pem"
	"math/big"
	"os"
	"path/filepath"
	"time"
)

type Cred struct {
	Name     string
	CertPath string
	KeyPath  string
	TLSCert  *tls.Certificate // nil = present no certificate
}

type PKI struct {
	Dir              string
	CA1Path, CA2Path string
	CA1Pool          *x509.CertPool
	Creds            map[string]*Cred
	Order            []string
	// IssueCA1 makes one more leaf signed by CA1 with the given validity window (not added to Order)
	IssueCA1 func(name string, notBefore, notAfter time.Time) *Cred
}

func mkKey() *ecdsa.PrivateKey {
	k, err := ecdsa.GenerateKey(elliptic.P256(), rand.Reader)
	if err != nil {
		panic(err)
	}
	return k
}

var serial int64 = 1000

func mkCert(tmpl *x509.Certificate, parent *x509.Certificate, pub *ecdsa.PublicKey, signer *ecdsa.PrivateKey) (*x509.Certificate, []byte) {
	serial++
	tmpl.SerialNumber = big.NewInt(serial)
	der, err := x509.CreateCertificate(rand.Reader, tmpl, parent, pub, signer)
	if err != nil {
		panic(err)
	}
	c, _ := x509.ParseCertificate(der)
	return c, der
}

func writePEM(path, typ string, der []byte) {
	f, err := os.Create(path)
	if err != nil {
		panic(err)
	}
	defer f.Close()
	pem.Encode(f, &pem.Block{Type: typ, Bytes: der})
}

func New(dir string) *PKI {
	p := &PKI{Dir: dir, Creds: map[string]*Cred{}}
	now := time.Now()
	mkCA := func(cn, file string) (*x509.Certificate, *ecdsa.PrivateKey, string) {
		k := mkKey()
		t := &x509.Certificate{Subject: pkix.Name{CommonName: cn}, NotBefore: now.Add(-time.Hour), NotAfter: now.Add(24 * time.Hour), IsCA: true, BasicConstraintsValid: true,
			KeyUsage: x509.KeyUsageCertSign | x509.KeyUsageCRLSign | x509.KeyUsageDigitalSignature}
		c, der := mkCert(t, t, &k.PublicKey, k)
		path := filepath.Join(dir, file)
		writePEM(path, "CERTIFICATE", der)
		return c, k, path
	}
	ca1, k1, path1 := mkCA("verif CA 1", "ca1.pem")
	ca2, k2, path2 := mkCA("verif CA 2", "ca2.pem")
	p.CA1Path, p.CA2Path = path1, path2
	p.CA1Pool = x509.NewCertPool()
	p.CA1Pool.AddCert(ca1)
	leaf := func(name string, parent *x509.Certificate, signer *ecdsa.PrivateKey, mod func(*x509.Certificate)) {
		k := mkKey()
		t := &x509.Certificate{Subject: pkix.Name{CommonName: name}, NotBefore: now.Add(-time.Hour), NotAfter: now.Add(12 * time.Hour),
			KeyUsage: x509.KeyUsageDigitalSignature, ExtKeyUsage: []x509.ExtKeyUsage{x509.ExtKeyUsageClientAuth, x509.ExtKeyUsageServerAuth}, DNSNames: []string{"proxy.test"}}
		if mod != nil {
			mod(t)
		}
		par, sk := parent, signer
		if parent == nil { // self-signed
			par, sk = t, k
		}
		_, der := mkCert(t, par, &k.PublicKey, sk)
		cp, kp := filepath.Join(dir, name+".pem"), filepath.Join(dir, name+".key")
		writePEM(cp, "CERTIFICATE", der)
		kb, _ := x509.MarshalECPrivateKey(k)
		writePEM(kp, "EC PRIVATE KEY", kb)
		tc, err := tls.LoadX509KeyPair(cp, kp)
		if err != nil {
			panic(err)
		}
		p.Creds[name] = &Cred{Name: name, CertPath: cp, KeyPath: kp, TLSCert: &tc}
		p.Order = append(p.Order, name)
	}
	p.IssueCA1 = func(name string, nb, na time.Time) *Cred {
		leaf(name, ca1, k1, func(t *x509.Certificate) { t.NotBefore, t.NotAfter = nb, na })
		p.Order = p.Order[:len(p.Order)-1]
		return p.Creds[name]
	}
	leaf("valid-ca1", ca1, k1, nil)
	leaf("valid-ca1-second", ca1, k1, nil)
	leaf("self-signed", nil, nil, nil)
	leaf("other-ca", ca2, k2, nil)
	leaf("expired-ca1", ca1, k1, func(t *x509.Certificate) { t.NotBefore, t.NotAfter = now.Add(-48*time.Hour), now.Add(-24*time.Hour) })
	leaf("not-yet-valid-ca1", ca1, k1, func(t *x509.Certificate) { t.NotBefore, t.NotAfter = now.Add(24*time.Hour), now.Add(48*time.Hour) })
	leaf("server-usage-only-ca1", ca1, k1, func(t *x509.Certificate) { t.ExtKeyUsage = []x509.ExtKeyUsage{x509.ExtKeyUsageServerAuth} })
	leaf("client-usage-only-ca1", ca1, k1, func(t *x509.Certificate) { t.ExtKeyUsage = []x509.ExtKeyUsage{x509.ExtKeyUsageClientAuth} })
	leaf("wrong-name-ca1", ca1, k1, func(t *x509.Certificate) { t.DNSNames = []string{"other.test"} })
	// a self-signed certificate that copies CA1's subject (name match without key match)
	leaf("self-signed-ca1-subject", nil, nil, func(t *x509.Certificate) { t.Subject = pkix.Name{CommonName: "verif CA 1"} })
	p.Creds["none"] = &Cred{Name: "none"}
	p.Order = append(p.Order, "none")
	return p
}
