// Engine ringmodel (C05): the real proxyIDRingBuffer against a plain-slice reference model.
package ringmodel

import (
	"fmt"
	"math"
	"math/rand"
	"testing"

	"go.temporal.io/server/client/history"

	"github.com/temporalio/s2s-proxy/proxy"
	"verifharness/rec"
)

type entry struct {
	pid   int64
	shard history.ClusterShardID
	orig  int64
	hole  bool
}

type model struct{ e []entry }

func (m *model) appendTo(pid int64, sh history.ClusterShardID, orig int64) {
	if len(m.e) > 0 {
		for next := m.e[len(m.e)-1].pid + 1; next < pid; next++ {
			m.e = append(m.e, entry{pid: next, hole: true})
		}
	}
	m.e = append(m.e, entry{pid: pid, shard: sh, orig: orig})
}
func (m *model) aggregate(w int64) (map[history.ClusterShardID]int64, int) {
	res := map[history.ClusterShardID]int64{}
	n := 0
	for _, e := range m.e {
		if e.pid > w {
			break
		}
		n++
		if e.hole {
			continue
		}
		if cur, ok := res[e.shard]; !ok || e.orig > cur {
			res[e.shard] = e.orig
		}
	}
	return res, n
}
func (m *model) discard(n int) {
	if n <= 0 {
		return
	}
	if n > len(m.e) {
		n = len(m.e)
	}
	m.e = m.e[n:]
}

var shards = []history.ClusterShardID{{ClusterID: 1, ShardID: 1}, {ClusterID: 1, ShardID: 2}, {ClusterID: 2, ShardID: 1}, {ClusterID: 7, ShardID: 4096}}

// sim runs both implementations side by side.
type sim struct {
	ring      anyRing
	m         model
	nextPID   int64
	appends   int
	lastCount int
	origBase  int64
	trace     []string
	wrapped   bool
	grown     bool
	cap0      int
	states    map[string]bool
	nshards   int
	ops       int64
	rng       *rand.Rand // nil in exhaustive mode
}

type anyRing interface {
	Append(int64, history.ClusterShardID, int64)
	AggregateUpTo(int64) (map[history.ClusterShardID]int64, int)
	Discard(int)
}

func newSim(capacity int, firstPID int64, nshards int, states map[string]bool) *sim {
	return &sim{ring: proxy.VerifNewRing(capacity), nextPID: firstPID, cap0: capacity, states: states, nshards: nshards, origBase: 1000}
}

func (s *sim) note() {
	r := s.ring.(interface{})
	_ = r
	head, size, capn, _ := proxy.VerifRingState(s.ring.(ringPtr))
	if capn > s.cap0 && s.cap0 >= 1 {
		s.grown = true
	}
	if size > 0 && head+size > capn {
		s.wrapped = true
	}
	if s.wrapped || s.grown {
		s.states[fmt.Sprintf("h%d/s%d/c%d", head, size, capn)] = true
	}
}

func (s *sim) doAppend(gap int64) string {
	s.nextPID += gap
	pid := s.nextPID
	s.nextPID++
	sh := shards[s.appends%s.nshards]
	orig := s.origBase + int64(s.appends)*3
	if s.rng != nil && s.rng.Intn(8) == 0 {
		orig -= int64(s.rng.Intn(10)) // the statement says "largest", not "latest"
	}
	s.appends++
	s.ring.Append(pid, sh, orig)
	s.m.appendTo(pid, sh, orig)
	s.ops++
	s.trace = append(s.trace, fmt.Sprintf("append(%d,%d:%d,%d)", pid, sh.ClusterID, sh.ShardID, orig))
	s.note()
	return s.checkSizes()
}

func (s *sim) doAggregate(w int64) string {
	got, gn := s.ring.AggregateUpTo(w)
	want, wn := s.m.aggregate(w)
	s.ops++
	s.trace = append(s.trace, fmt.Sprintf("aggregate(%d)", w))
	s.lastCount = gn
	if gn != wn {
		return fmt.Sprintf("aggregate(%d): count %d, model %d", w, gn, wn)
	}
	if len(got) != len(want) {
		return fmt.Sprintf("aggregate(%d): shards %v, model %v", w, got, want)
	}
	for k, v := range want {
		if gv, ok := got[k]; !ok || gv != v {
			return fmt.Sprintf("aggregate(%d): shard %v -> %d (present=%v), model %d", w, k, gv, ok, v)
		}
	}
	return ""
}

func (s *sim) doDiscard(n int) string {
	s.ring.Discard(n)
	s.m.discard(n)
	s.ops++
	s.trace = append(s.trace, fmt.Sprintf("discard(%d)", n))
	s.note()
	return s.checkSizes()
}

func (s *sim) checkSizes() string {
	_, size, _, start := proxy.VerifRingState(s.ring.(ringPtr))
	if size != len(s.m.e) {
		return fmt.Sprintf("size %d, model %d", size, len(s.m.e))
	}
	if size > 0 && start != s.m.e[0].pid {
		return fmt.Sprintf("start proxy id %d, model %d", start, s.m.e[0].pid)
	}
	return ""
}

// drain: pop one entry at a time; every appended entry must come out exactly once, in order.
func (s *sim) drain() string {
	for len(s.m.e) > 0 {
		head := s.m.e[0]
		got, n := s.ring.AggregateUpTo(head.pid)
		s.ops++
		if n != 1 {
			return fmt.Sprintf("drain: aggregate(%d) covered %d entries, want 1", head.pid, n)
		}
		if head.hole {
			if len(got) != 0 {
				return fmt.Sprintf("drain: hole at %d yielded %v", head.pid, got)
			}
		} else if len(got) != 1 || got[head.shard] != head.orig {
			return fmt.Sprintf("drain: entry %d yielded %v, want %v->%d", head.pid, got, head.shard, head.orig)
		}
		s.ring.Discard(1)
		s.m.discard(1)
		s.ops++
		if e := s.checkSizes(); e != "" {
			return "drain: " + e
		}
	}
	if got, n := s.ring.AggregateUpTo(math.MaxInt64); n != 0 || len(got) != 0 {
		return fmt.Sprintf("drain: ring not empty at the end: %v,%d", got, n)
	}
	return ""
}

// watermark classes relative to the model's stored range
func (s *sim) watermark(class int) int64 {
	if len(s.m.e) == 0 {
		return []int64{math.MinInt64, 0, s.nextPID - 1, s.nextPID, math.MaxInt64}[class]
	}
	first, last := s.m.e[0].pid, s.m.e[len(s.m.e)-1].pid
	switch class {
	case 0:
		return first - 1
	case 1:
		return first
	case 2:
		return first + (last-first)/2
	case 3:
		return last
	default:
		return last + 2
	}
}

const nSym = 11

func (s *sim) step(sym int) string {
	switch sym {
	case 0:
		return s.doAppend(0)
	case 1:
		return s.doAppend(1) // leaves a one-id hole
	case 2, 3, 4, 5, 6:
		return s.doAggregate(s.watermark(sym - 2))
	case 7:
		return s.doDiscard(0)
	case 8:
		return s.doDiscard(1)
	case 9:
		return s.doDiscard(len(s.m.e) + 1)
	default:
		return s.doDiscard(s.lastCount) // what recvAck does: discard the count of the last aggregation
	}
}

var symName = []string{"A", "Agap", "G<", "G=first", "Gmid", "G=last", "G>", "D0", "D1", "Dall", "Dlast"}

func TestRing(t *testing.T) {
	out := rec.Default()
	maxLen := 6
	randomSeqs := 2000
	if rec.Thorough() {
		maxLen = 7
		randomSeqs = 60000
	}
	idx := 0
	// ---- exhaustive part: blocks = (capacity, first two symbols)
	for capacity := 1; capacity <= 4; capacity++ {
		for pre := 0; pre < nSym*nSym; pre++ {
			name := fmt.Sprintf("exh/cap%d/%s,%s/len%d", capacity, symName[pre/nSym], symName[pre%nSym], maxLen)
			idx++
			if !rec.Want(idx, name) {
				continue
			}
			out.Begin(name, map[string]any{"capacity": capacity, "prefix": []string{symName[pre/nSym], symName[pre%nSym]}, "len": maxLen})
			states := map[string]bool{}
			var viol []rec.Violation
			var seqs, ops, wraps, grows, growWrapped int64
			rest := maxLen - 2
			total := 1
			for i := 0; i < rest; i++ {
				total *= nSym
			}
			seq := make([]int, maxLen)
			seq[0], seq[1] = pre/nSym, pre%nSym
			var sample any
			for code := 0; code < total; code++ {
				c := code
				for i := 0; i < rest; i++ {
					seq[2+i] = c % nSym
					c /= nSym
				}
				s := newSim(capacity, 1, 3, states)
				bad := ""
				for _, sym := range seq {
					wasWrapped := s.wrapped
					capBefore := capOf(s)
					if bad = s.step(sym); bad != "" {
						break
					}
					if capOf(s) > capBefore && wasWrapped {
						growWrapped++
					}
				}
				if bad == "" {
					bad = s.drain()
				}
				seqs++
				ops += s.ops
				if s.wrapped {
					wraps++
				}
				if s.grown {
					grows++
				}
				if sample == nil && s.wrapped && s.grown {
					sample = map[string]any{"capacity": capacity, "ops": append([]string{}, s.trace...)}
				}
				if bad != "" && len(viol) < 3 {
					viol = append(viol, rec.Violation{Prop: "C05", Sig: "ring-vs-model:" + sigOf(bad), What: bad,
						Witness: map[string]any{"capacity": capacity, "ops": s.trace}})
				}
			}
			classes := make([]string, 0, len(states))
			for k := range states {
				classes = append(classes, k)
			}
			out.End(rec.Line{Case: name, Viol: viol, Classes: classes, Sample: sample,
				Counts: map[string]int64{"sequences": seqs, "ops": ops, "seq_wrapped": wraps, "seq_grown": grows, "growth_while_wrapped": growWrapped,
					"exhaustive_blocks_completed": 1, "max_exhaustive_len": int64(maxLen)}})
		}
	}
	// ---- random part
	seed := rec.Seed()
	for k := 0; k < randomSeqs; k++ {
		name := fmt.Sprintf("rand/%d", k)
		idx++
		if !rec.Want(idx, name) {
			continue
		}
		rng := rand.New(rand.NewSource(rec.Mix(seed, name)))
		capacity := 1 + rng.Intn(9)
		n := 50 + rng.Intn(400)
		if rng.Intn(10) == 0 {
			n = 2000 + rng.Intn(8000)
		}
		nsh := 1 + rng.Intn(4)
		first := int64(1 + rng.Intn(5))
		if rng.Intn(5) == 0 {
			first = int64(1) << uint(20+rng.Intn(40))
		}
		out.Begin(name, map[string]any{"capacity": capacity, "ops": n, "shards": nsh, "first_proxy_id": first})
		states := map[string]bool{}
		s := newSim(capacity, first, nsh, states)
		s.rng = rng
		// phases bias towards filling / draining so that wrap+growth combine
		pAppend := 40 + rng.Intn(40)
		bad := ""
		var growWrapped int64
		for i := 0; i < n && bad == ""; i++ {
			if i%97 == 0 {
				pAppend = 20 + rng.Intn(70)
			}
			wasWrapped, capBefore := s.wrapped, capOf(s)
			r := rng.Intn(100)
			switch {
			case r < pAppend:
				gap := int64(0)
				if rng.Intn(12) == 0 {
					gap = int64(1 + rng.Intn(3))
				}
				bad = s.doAppend(gap)
			case r < pAppend+(100-pAppend)/2:
				var w int64
				switch rng.Intn(8) {
				case 0:
					w = math.MinInt64
				case 1:
					w = math.MaxInt64
				case 2:
					w = 0
				default:
					w = s.watermark(rng.Intn(5))
					if len(s.m.e) > 0 && rng.Intn(2) == 0 {
						w = s.m.e[rng.Intn(len(s.m.e))].pid
					}
				}
				bad = s.doAggregate(w)
			default:
				switch rng.Intn(4) {
				case 0:
					bad = s.doDiscard(rng.Intn(3) - 1)
				case 1:
					bad = s.doDiscard(s.lastCount)
				case 2:
					bad = s.doDiscard(rng.Intn(len(s.m.e) + 2))
				default:
					bad = s.doDiscard(1)
				}
			}
			if capOf(s) > capBefore && wasWrapped {
				growWrapped++
			}
			if len(s.trace) > 4000 {
				s.trace = s.trace[len(s.trace)-2000:]
			}
		}
		if bad == "" {
			bad = s.drain()
		}
		var viol []rec.Violation
		if bad != "" {
			viol = append(viol, rec.Violation{Prop: "C05", Sig: "ring-vs-model:" + sigOf(bad), What: bad,
				Witness: map[string]any{"capacity": capacity, "first_proxy_id": first, "last_ops": lastN(s.trace, 60)}})
		}
		classes := make([]string, 0, len(states))
		for k := range states {
			classes = append(classes, k)
		}
		var sample any
		if k < 2 {
			sample = map[string]any{"capacity": capacity, "first_proxy_id": first, "first_ops": firstN(s.trace, 25)}
		}
		out.End(rec.Line{Case: name, Viol: viol, Classes: classes, Sample: sample,
			Counts: map[string]int64{"sequences": 1, "ops": s.ops, "random_sequences": 1, "growth_while_wrapped": growWrapped}})
	}
	out.Note("exhaustive_len=%d", maxLen)
}

type ringPtr = *proxy.VerifRingT

func capOf(s *sim) int {
	_, _, c, _ := proxy.VerifRingState(s.ring.(ringPtr))
	return c
}

func sigOf(msg string) string {
	// keep the operation kind only: "aggregate", "size", "start", "drain"
	for _, k := range []string{"drain", "aggregate", "size", "start"} {
		if len(msg) >= len(k) && msg[:len(k)] == k {
			return k
		}
	}
	return "other"
}

func lastN(s []string, n int) []string {
	if len(s) > n {
		return s[len(s)-n:]
	}
	return s
}
func firstN(s []string, n int) []string {
	if len(s) > n {
		return s[:n]
	}
	return s
}
