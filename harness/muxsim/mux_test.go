// Package muxsim: the real mux provider / multi-mux manager / managed session on net.Pipe
// connections with a scripted connection provider, in virtual time (C10).
package muxsim

import (
	"context"
	"errors"
	"fmt"
	"io"
	"math/rand"
	"net"
	"runtime"
	"strings"
	"sync"
	"sync/atomic"
	"testing"
	"testing/synctest"
	"time"

	"github.com/hashicorp/yamux"

	"github.com/temporalio/s2s-proxy/transport/mux"
	"github.com/temporalio/s2s-proxy/transport/mux/session"
	"verifharness/fakes"
	"verifharness/rec"
)

// outcomes of one connection attempt
const (
	oHealthy    = "healthy"
	oDialFail   = "dial-fail"
	oPeerCloses = "peer-closes-at-once" // Ping -> EOF
	oSilent     = "peer-silent"         // Ping -> write timeout
	oSetupErr   = "yamux-setup-error"   // sessionFn fails
	oDiesLater  = "dies-later"          // healthy, the peer closes it after a while
	oLocalClose = "closed-locally"      // healthy, the proxy side closes it after a while (ManagedMuxSession.Close)
	oGarbage    = "peer-talks-garbage"  // Ping -> protocol error
	oNeverReads = "peer-never-reads"    // Ping cannot even be written -> ErrConnectionWriteTimeout
	oReadsThenCloses = "peer-reads-ping-then-closes"
)

var outcomes = []string{oHealthy, oDialFail, oPeerCloses, oSilent, oSetupErr, oDiesLater, oLocalClose, oGarbage, oNeverReads, oReadsThenCloses}

type muxCase struct {
	Name     string   `json:"name"`
	N        int      `json:"pool_size"`
	Script   []string `json:"script"`          // outcome of the i-th connection attempt; healthy afterwards
	CancelAt string   `json:"cancel_at"`       // "" or hook kind: nc-enter nc-exit sf-enter sf-exit add-before add-after
	CancelK  int      `json:"cancel_k"`        // ... at its k-th occurrence
	DieMS    int      `json:"die_after_ms"`
}

type tracked struct {
	net.Conn
	id      int
	outcome string
	closed  atomic.Bool
}

func (t *tracked) Close() error { t.closed.Store(true); return t.Conn.Close() }

type world struct {
	c        muxCase
	mu       sync.Mutex
	attempts int
	conns    []*tracked
	peers    map[int]net.Conn
	hooks    map[string]int
	cancel   context.CancelFunc
	closeCh  chan struct{}
	log      []string
	t0       time.Time
	maxListed int
	peerLive  atomic.Int64
	peerMax   atomic.Int64
	viol     []rec.Violation
	sessionFnCalls, addCalls int
}

func (w *world) logf(f string, a ...any) {
	w.mu.Lock()
	w.log = append(w.log, fmt.Sprintf("%7dms ", time.Since(w.t0).Milliseconds())+fmt.Sprintf(f, a...))
	w.mu.Unlock()
}

func (w *world) violate(sig, f string, a ...any) {
	w.mu.Lock()
	w.viol = append(w.viol, rec.Violation{Prop: "C10", Sig: sig, What: fmt.Sprintf(f, a...)})
	w.mu.Unlock()
}

func (w *world) hook(kind string) {
	w.mu.Lock()
	w.hooks[kind]++
	n := w.hooks[kind]
	fire := w.c.CancelAt == kind && w.c.CancelK == n
	w.mu.Unlock()
	if fire {
		w.logf("lifetime cancelled at %s #%d", kind, n)
		w.cancel()
	}
}

// connProvider implementation (the interface has exported methods only)
func (w *world) NewConnection() (net.Conn, error) {
	w.hook("nc-enter")
	time.Sleep(3 * time.Millisecond) // a real dial/accept blocks; an instantly failing provider would spin the retry loop
	w.mu.Lock()
	i := w.attempts
	w.attempts++
	out := oHealthy
	if i < len(w.c.Script) {
		out = w.c.Script[i]
	}
	w.mu.Unlock()
	if out == oDialFail {
		w.logf("attempt %d: dial fails", i)
		w.hook("nc-exit")
		return nil, errors.New("scripted dial failure")
	}
	a, b := net.Pipe()
	tc := &tracked{Conn: a, id: i, outcome: out}
	w.mu.Lock()
	w.conns = append(w.conns, tc)
	w.peers[i] = b
	w.mu.Unlock()
	w.logf("attempt %d: connection handed out (%s)", i, out)
	go w.peer(i, out, b)
	w.hook("nc-exit")
	return tc, nil
}
func (w *world) CloseCh() <-chan struct{} { return w.closeCh }
func (w *world) Address() string          { return "pipe" }

func ycfg() *yamux.Config {
	c := yamux.DefaultConfig()
	c.LogOutput = io.Discard
	c.EnableKeepAlive = false
	return c
}

// the remote end of one connection
func (w *world) peer(i int, out string, b net.Conn) {
	switch out {
	case oPeerCloses:
		b.Close()
		return
	case oSilent, oSetupErr:
		// never speaks; just notices when the proxy closes its end
		buf := make([]byte, 64)
		for {
			if _, err := b.Read(buf); err != nil {
				return
			}
			if out == oSetupErr {
				continue
			}
			// silent: swallow the ping without answering
		}
	case oNeverReads:
		// holds the connection open without ever reading: the proxy's first write blocks until its write timeout
		<-w.closeCh
		time.Sleep(time.Minute)
		return
	case oReadsThenCloses:
		buf := make([]byte, 12)
		io.ReadFull(b, buf)
		b.Close()
		return
	case oGarbage:
		go io.Copy(io.Discard, b)
		b.Write([]byte("this is not yamux, not even close................"))
		return
	}
	s, err := yamux.Client(b, ycfg())
	if err != nil {
		return
	}
	n := w.peerLive.Add(1)
	for {
		m := w.peerMax.Load()
		if n <= m || w.peerMax.CompareAndSwap(m, n) {
			break
		}
	}
	defer w.peerLive.Add(-1)
	go func() {
		for {
			st, err := s.Accept()
			if err != nil {
				return
			}
			go func() { io.Copy(st, st); st.Close() }()
		}
	}()
	if out == oDiesLater {
		select {
		case <-time.After(time.Duration(w.c.DieMS) * time.Millisecond):
			w.logf("peer closes session of attempt %d", i)
			s.Close()
		case <-s.CloseChan():
		}
		return
	}
	<-s.CloseChan()
}

func runMux(c muxCase) (viol []rec.Violation, counts map[string]int64, log []string) {
	counts = map[string]int64{}
	life, cancel := context.WithCancel(context.Background())
	w := &world{c: c, peers: map[int]net.Conn{}, hooks: map[string]int{}, cancel: cancel, closeCh: make(chan struct{}), t0: time.Now()}
	context.AfterFunc(life, func() { close(w.closeCh) })
	probe := fakes.NewProbe(1)
	saved := mux.MuxManagerStartDelay
	mux.MuxManagerStartDelay = 10 * time.Millisecond
	defer func() { mux.MuxManagerStartDelay = saved }()
	sessionFn := func(conn net.Conn) (*yamux.Session, error) {
		w.hook("sf-enter")
		defer w.hook("sf-exit")
		w.mu.Lock()
		w.sessionFnCalls++
		w.mu.Unlock()
		if tc, ok := conn.(*tracked); ok && tc.outcome == oSetupErr {
			return nil, errors.New("scripted yamux setup error")
		}
		cfg := ycfg()
		cfg.ConnectionWriteTimeout = 2 * time.Second
		return yamux.Server(conn, cfg)
	}
	listUpdate := func(m map[string]session.ManagedMuxSession) {
		// invoked under the manager's table lock: the table itself may never exceed the limit
		if len(m) > c.N {
			w.violate("limit-exceeded:table", "session table holds %d sessions, limit %d", len(m), c.N)
		}
		w.mu.Lock()
		if len(m) > w.maxListed {
			w.maxListed = len(m)
		}
		w.mu.Unlock()
	}
	mgr, err := mux.NewCustomMultiMuxManager(life, "verif", func(add mux.AddNewMux, lt context.Context) (mux.MuxProvider, error) {
		wrapped := func(s *yamux.Session, conn net.Conn) {
			w.hook("add-before")
			w.mu.Lock()
			w.addCalls++
			w.mu.Unlock()
			add(s, conn)
			w.hook("add-after")
		}
		return mux.NewMuxProvider(lt, "verif", w, sessionFn, int64(c.N), wrapped, []string{"pipe", "verif", "verif"}, probe), nil
	}, nil, []mux.OnConnectionListUpdate{listUpdate}, probe)
	if err != nil {
		return []rec.Violation{{Prop: "C10", Sig: "setup", What: err.Error()}}, counts, nil
	}
	go mgr.Start()
	// local closes requested by the script
	go func() {
		closed := map[string]bool{}
		for life.Err() == nil {
			time.Sleep(50 * time.Millisecond)
			w.mu.Lock()
			var want []int
			for _, tc := range w.conns {
				if tc.outcome == oLocalClose && !tc.closed.Load() {
					want = append(want, tc.id)
				}
			}
			w.mu.Unlock()
			if len(want) == 0 {
				continue
			}
			for id, s := range mgr.GetMuxConnections() {
				if !closed[id] && time.Since(w.t0) > time.Duration(c.DieMS)*time.Millisecond {
					// close one session from the proxy side (which one maps to the scripted attempt does not matter)
					closed[id] = true
					w.logf("local Close() of session %s", id)
					s.Close()
					w.mu.Lock()
					for _, tc := range w.conns {
						if tc.outcome == oLocalClose {
							tc.outcome = "closed-locally-done"
							break
						}
					}
					w.mu.Unlock()
					break
				}
			}
		}
	}()

	if c.CancelAt == "" {
		// heal: once the script is exhausted everything is healthy; the pool must return to N
		time.Sleep(90 * time.Second)
		synctest.Wait()
		conns := mgr.GetMuxConnections()
		if len(conns) != c.N {
			w.mu.Lock()
			att := w.attempts
			w.mu.Unlock()
			if mgr.CanAcceptConnections() {
				w.violate("not-healed:pool-below-limit", "90 virtual s after the last scripted fault the pool holds %d of %d sessions although the peer is reachable (attempts so far: %d)", len(conns), c.N, att)
			} else {
				w.violate("permit-leaked", "90 virtual s after the last scripted fault the pool holds %d of %d sessions and the provider reports no free slot: a permit was lost (the provider is parked although a slot is empty)", len(conns), c.N)
			}
		} else {
			counts["healed_to_full_strength"] = 1
			if mgr.CanAcceptConnections() {
				w.violate("permit-duplicated", "pool is at full strength (%d) yet the provider reports a free slot: a permit was released twice", c.N)
			}
			for id, s := range conns {
				st, err := s.Open()
				if err != nil {
					w.violate("slot-not-usable", "session %s in the healed pool cannot open a stream: %v", id, err)
					continue
				}
				st.SetDeadline(time.Now().Add(5 * time.Second))
				st.Write([]byte("hi"))
				buf := make([]byte, 2)
				if _, err := io.ReadFull(st, buf); err != nil {
					w.violate("slot-not-usable", "session %s in the healed pool does not carry data: %v", id, err)
				} else {
					counts["slots_served_a_stream"]++
				}
				st.Close()
			}
		}
		if int(w.peerMax.Load()) > c.N {
			w.violate("limit-exceeded:peer-side", "%d sessions were open at the peer at the same time, limit %d", w.peerMax.Load(), c.N)
		}
		w.logf("lifetime cancelled at the end")
		cancel()
	}
	if c.CancelAt != "" {
		// the cancel point may lie beyond what this script reaches (e.g. the 3rd registration in a pool
		// of 2): then the lifetime is cancelled after a minute of steady state instead
		time.Sleep(time.Minute)
		if life.Err() == nil {
			w.logf("cancel point never reached; lifetime cancelled in steady state")
			cancel()
		}
	}
	// shutdown: everything closes
	time.Sleep(5 * time.Minute)
	synctest.Wait()
	if !mgr.IsClosed() {
		w.violate("shutdown:manager-not-closed", "5 virtual minutes after cancellation the manager does not report closed")
	}
	if left := mgr.GetMuxConnections(); len(left) != 0 {
		w.violate("shutdown:sessions-left-registered", "%d sessions still registered after shutdown", len(left))
	}
	w.mu.Lock()
	for _, tc := range w.conns {
		if !tc.closed.Load() {
			w.viol = append(w.viol, rec.Violation{Prop: "C10", Sig: "shutdown:connection-never-closed:" + phaseOf(tc, w), What: fmt.Sprintf("connection of attempt %d (%s) was handed to the provider and never closed (cancel at %s #%d)", tc.id, tc.outcome, c.CancelAt, c.CancelK)})
		}
	}
	counts["connections_handed_out"] = int64(len(w.conns))
	counts["attempts"] = int64(w.attempts)
	counts["max_sessions_listed"] = int64(w.maxListed)
	if w.c.CancelAt != "" && w.hooks[w.c.CancelAt] >= w.c.CancelK {
		counts["cancel_points_hit"] = 1
	}
	viol, log = w.viol, w.log
	w.mu.Unlock()
	// let everything unwind: a bubble must not end with goroutines left (time stops when it ends), so
	// connections the proxy never closed - already reported above - are closed by the harness now
	for _, p := range w.peers {
		p.Close()
	}
	for _, tc := range w.conns {
		tc.Conn.Close()
	}
	time.Sleep(3 * time.Minute)
	return
}

func phaseOf(tc *tracked, w *world) string {
	switch tc.outcome {
	case oSetupErr:
		return "after-setup-error"
	}
	if w.c.CancelAt != "" {
		return "cancel-during-establishment"
	}
	return "other"
}

func TestMux(t *testing.T) {
	out := rec.Default()
	var cases []muxCase
	// all fault scripts up to length 3 (N = 1, 2), sampled longer ones
	var gen func(prefix []string, l int)
	for _, n := range []int{1, 2} {
		maxLen := 2
		if rec.Thorough() {
			maxLen = 4
		}
		gen = func(prefix []string, l int) {
			if len(prefix) > 0 {
				cases = append(cases, muxCase{N: n, Script: append([]string{}, prefix...), DieMS: 700})
			}
			if l == maxLen {
				return
			}
			for _, o := range outcomes[1:] {
				gen(append(prefix, o), l+1)
			}
		}
		gen(nil, 0)
	}
	rng := rand.New(rand.NewSource(rec.Seed()))
	nRand := 150
	if rec.Thorough() {
		nRand = 20000
	}
	for i := 0; i < nRand; i++ {
		c := muxCase{N: 1 + rng.Intn(4), DieMS: 100 + rng.Intn(3000)}
		for j := 0; j < 1+rng.Intn(7); j++ {
			c.Script = append(c.Script, outcomes[rng.Intn(len(outcomes))])
		}
		cases = append(cases, c)
	}
	// cancellation at every provider step
	for _, n := range []int{1, 2, 3} {
		for _, kind := range []string{"nc-enter", "nc-exit", "sf-enter", "sf-exit", "add-before", "add-after"} {
			for k := 1; k <= n+2; k++ {
				for _, sc := range [][]string{nil, {oDialFail}, {oSetupErr}, {oPeerCloses, oHealthy}, {oDiesLater}} {
					cases = append(cases, muxCase{N: n, Script: sc, CancelAt: kind, CancelK: k, DieMS: 500})
				}
			}
		}
	}
	sampled := 0
	for idx, c := range cases {
		c.Name = fmt.Sprintf("mux/n%d/%s/cancel=%s#%d", c.N, strings.Join(c.Script, ","), c.CancelAt, c.CancelK)
		if !rec.Want(idx, c.Name) {
			continue
		}
		out.Begin(c.Name, c)
		var viol []rec.Violation
		var counts map[string]int64
		var log []string
		t.Run("case", func(t *testing.T) {
			synctest.Test(t, func(t *testing.T) { viol, counts, log = runMux(c) })
		})
		// yamux keeps a package-level sync.Pool of timers; a timer created in one bubble must not be
		// reused in the next one. Two GC cycles empty the pool.
		runtime.GC()
		runtime.GC()
		if counts == nil {
			out.End(rec.Line{Case: c.Name, Verdict: rec.Inconclusive, Why: "no outcome"})
			continue
		}
		counts["scripts"] = 1
		l := rec.Line{Case: c.Name, Viol: dedupe(viol), Counts: counts, Class: c.Name}
		for i := range l.Viol {
			l.Viol[i].Witness = map[string]any{"case": c, "log": log}
		}
		if sampled < 2 && len(c.Script) > 1 {
			sampled++
			l.Sample = map[string]any{"case": c, "log": log, "result": counts}
		}
		out.End(l)
	}
}

func dedupe(v []rec.Violation) []rec.Violation {
	seen := map[string]bool{}
	var out []rec.Violation
	for _, x := range v {
		if !seen[x.Sig] {
			seen[x.Sig] = true
			out = append(out, x)
		}
	}
	return out
}
