//go:build tools

package tools

import (
	_ "github.com/anishathalye/porcupine"
	_ "go.etcd.io/gofail/runtime"
)
