// Package rec is the shared plumbing between engine child processes and the driver:
// one JSON line per case on the file named by VERIF_OUT.
package rec

import (
	"encoding/json"
	"fmt"
	"hash/fnv"
	"os"
	"runtime"
	"strconv"
	"strings"
	"sync"
	"time"
)

const (
	Held         = "held"
	Violated     = "violated"
	Inconclusive = "inconclusive"
)

// Violation is one refuting observation. Sig is the machine-matchable signature used for
// known-finding matching; What is for humans; Witness is the replayable detail.
type Violation struct {
	Prop    string `json:"prop"`
	Sig     string `json:"sig"`
	What    string `json:"what"`
	Witness any    `json:"witness,omitempty"`
}

// Line is what a child writes. T = "begin" (before the case runs), "end" (after), "note".
type Line struct {
	T       string           `json:"t"`
	Case    string           `json:"case,omitempty"`
	Verdict string           `json:"verdict,omitempty"`
	Viol    []Violation      `json:"viol,omitempty"`
	Why     string           `json:"why,omitempty"`   // for inconclusive
	Class   string           `json:"class,omitempty"` // distinctness key; "" => trivial case
	Classes []string         `json:"classes,omitempty"` // several distinctness keys observed by one case
	Counts  map[string]int64 `json:"counts,omitempty"`
	Sample  any              `json:"sample,omitempty"`
	Desc    any              `json:"desc,omitempty"` // case descriptor (replay input)
	Note    string           `json:"note,omitempty"`
}

type Out struct {
	mu    sync.Mutex
	f     *os.File
	timer *time.Timer
}

// CaseTimeout is the real-time watchdog per case (VERIF_CASE_TIMEOUT seconds, default 150).
// When it fires the child dumps all goroutines to stderr and exits with status 97; the
// driver reports the case as inconclusive (or as a violation when the dump shows the stuck
// state a property forbids) and restarts the child after that case.
func CaseTimeout() time.Duration {
	if v, err := strconv.Atoi(os.Getenv("VERIF_CASE_TIMEOUT")); err == nil && v > 0 {
		return time.Duration(v) * time.Second
	}
	return 150 * time.Second
}

var (
	outOnce sync.Once
	out     *Out
)

// Default returns the process-wide writer (VERIF_OUT, or stdout when unset).
func Default() *Out {
	outOnce.Do(func() {
		p := os.Getenv("VERIF_OUT")
		if p == "" {
			out = &Out{f: os.Stdout}
			return
		}
		f, err := os.OpenFile(p, os.O_CREATE|os.O_APPEND|os.O_WRONLY, 0o644)
		if err != nil {
			panic(err)
		}
		out = &Out{f: f}
	})
	return out
}

func (o *Out) write(l Line) {
	b, err := json.Marshal(l)
	if err != nil {
		b, _ = json.Marshal(Line{T: "note", Case: l.Case, Note: "marshal error: " + err.Error()})
	}
	o.mu.Lock()
	defer o.mu.Unlock()
	o.f.Write(append(b, '\n'))
}

func (o *Out) Begin(name string, desc any) {
	o.write(Line{T: "begin", Case: name, Desc: desc})
	o.mu.Lock()
	if o.timer != nil {
		o.timer.Stop()
	}
	// Begin is called outside any synctest bubble, so this is a real-time timer.
	o.timer = time.AfterFunc(CaseTimeout(), func() {
		buf := make([]byte, 64<<20)
		n := runtime.Stack(buf, true)
		fmt.Fprintf(os.Stderr, "\nVERIF-CASE-WATCHDOG case=%s exceeded %v of real time; goroutine dump follows\n%s\n", name, CaseTimeout(), buf[:n])
		os.Exit(97)
	})
	o.mu.Unlock()
}
func (o *Out) Note(format string, a ...any) {
	o.write(Line{T: "note", Note: fmt.Sprintf(format, a...)})
}
func (o *Out) End(l Line) {
	o.mu.Lock()
	if o.timer != nil {
		o.timer.Stop()
		o.timer = nil
	}
	o.mu.Unlock()
	l.T = "end"
	if l.Verdict == "" {
		if len(l.Viol) > 0 {
			l.Verdict = Violated
		} else {
			l.Verdict = Held
		}
	}
	o.write(l)
}

// ---------- environment ----------

func Prop() string { return os.Getenv("VERIF_PROP") }
func Tier() string {
	if t := os.Getenv("VERIF_TIER"); t != "" {
		return t
	}
	return "quick"
}
func Thorough() bool { return Tier() == "thorough" }
func Seed() int64 {
	s, err := strconv.ParseInt(os.Getenv("VERIF_SEED"), 10, 64)
	if err != nil {
		return 1
	}
	return s
}

// Shard returns (index, count) from VERIF_SHARD="i/n" (default 0/1).
func Shard() (int, int) {
	p := strings.Split(os.Getenv("VERIF_SHARD"), "/")
	if len(p) != 2 {
		return 0, 1
	}
	i, _ := strconv.Atoi(p[0])
	n, _ := strconv.Atoi(p[1])
	if n < 1 {
		n = 1
	}
	return i, n
}

// Mine reports whether case number idx belongs to this child.
func Mine(idx int) bool {
	i, n := Shard()
	return idx%n == i
}

// Only returns the single case name to run (replay mode), or "".
func Only() string { return os.Getenv("VERIF_ONLY") }

var resumeAfter = os.Getenv("VERIF_RESUME_AFTER")

// ResumeAfter: the case after which a restarted child continues ("" on a first start); for
// engines that shard by name instead of by index.
func ResumeAfter() string { return os.Getenv("VERIF_RESUME_AFTER") }

// Want reports whether the named case should run in this process.
func Want(idx int, name string) bool {
	if o := Only(); o != "" {
		return o == name
	}
	if !Mine(idx) {
		return false
	}
	if resumeAfter != "" { // restarted child: skip everything up to and including that case
		if name == resumeAfter {
			resumeAfter = ""
		}
		return false
	}
	return true
}

// Hash is a short stable hash for signatures/classes.
func Hash(parts ...string) string {
	h := fnv.New64a()
	for _, p := range parts {
		h.Write([]byte(p))
		h.Write([]byte{0})
	}
	return strconv.FormatUint(h.Sum64(), 36)
}

// Mix derives a per-case seed.
func Mix(seed int64, parts ...string) int64 {
	h := fnv.New64a()
	fmt.Fprintf(h, "%d", seed)
	for _, p := range parts {
		h.Write([]byte{0})
		h.Write([]byte(p))
	}
	return int64(h.Sum64() >> 1)
}
