// Package xlate: the real translators and access-control interceptor on generated messages,
// compared with the independent descriptor-driven oracle in gen. Serves C12, C13, C14, C16.
package xlate

import (
	"bytes"
	"fmt"
	"math/rand"
	"regexp"
	"strings"

	commonpb "go.temporal.io/api/common/v1"
	enumspb "go.temporal.io/api/enums/v1"
	failurepb "go.temporal.io/api/failure/v1"
	historypb "go.temporal.io/api/history/v1"
	"google.golang.org/protobuf/proto"
	"google.golang.org/protobuf/reflect/protoreflect"

	"verifharness/gen"
	"verifharness/rec"
)

type root struct {
	m      gen.Method
	md     protoreflect.MessageDescriptor
	isResp bool
}

func (r root) String() string {
	side := "Request"
	if r.isResp {
		side = "Response"
	}
	return r.m.Service[strings.LastIndex(r.m.Service, ".")+1:] + "/" + r.m.Name + side
}

func allRoots() []root {
	var out []root
	for _, m := range gen.AllMethods() {
		out = append(out, root{m, m.In, false}, root{m, m.Out, true})
	}
	return out
}

var reIdx = regexp.MustCompile(`\[\d+\]|\{[^}]*\}`)

func normPath(p string) string { return reIdx.ReplaceAllString(p, "[]") }

// normalise for comparison: blobs that hold history events are replaced by their decoded
// form re-encoded canonically, so that two encodings of equal events compare equal.
func canonicalBlobs(m proto.Message) proto.Message {
	c := proto.Clone(m)
	var fix func(pm protoreflect.Message)
	fixBlob := func(b protoreflect.Message) {
		blob := b.Interface().(*commonpb.DataBlob)
		if evs, ok := gen.DecodeEvents(blob); ok && len(blob.Data) > 0 {
			for _, e := range evs {
				fix(e.ProtoReflect())
			}
			blob.Data, blob.EncodingType = gen.EncodeEventsDeterministic(evs), enumspb.ENCODING_TYPE_PROTO3
		}
	}
	fix = func(pm protoreflect.Message) {
		pm.Range(func(f protoreflect.FieldDescriptor, v protoreflect.Value) bool {
			switch {
			case f.IsMap():
				if f.MapValue().Message() != nil {
					v.Map().Range(func(_ protoreflect.MapKey, mv protoreflect.Value) bool { fix(mv.Message()); return true })
				}
			case f.IsList() && f.Message() != nil:
				for i := 0; i < v.List().Len(); i++ {
					if gen.IsEventBlobSite(f) {
						fixBlob(v.List().Get(i).Message())
					} else {
						fix(v.List().Get(i).Message())
					}
				}
			case f.Message() != nil:
				if gen.IsEventBlobSite(f) {
					fixBlob(v.Message())
				} else {
					fix(v.Message())
				}
			}
			return true
		})
	}
	fix(c.ProtoReflect())
	return c
}

func equalModuloBlobEncoding(a, b proto.Message) bool {
	if proto.Equal(a, b) {
		return true
	}
	return proto.Equal(canonicalBlobs(a), canonicalBlobs(b))
}

// firstDiff names the first namespace (or search-attribute) site where two messages differ.
func firstDiff(got, want []gen.Site) (path, gotV, wantV string) {
	for i := 0; i < len(got) && i < len(want); i++ {
		if got[i] != want[i] {
			return want[i].Path, got[i].Value, want[i].Value
		}
	}
	if len(got) != len(want) {
		return "<site count>", fmt.Sprint(len(got)), fmt.Sprint(len(want))
	}
	return "", "", ""
}

func sortedSites(s []gen.Site) []gen.Site {
	out := append([]gen.Site{}, s...)
	// stable order by path then value (maps range in random order)
	for i := 1; i < len(out); i++ {
		for j := i; j > 0 && (out[j-1].Path > out[j].Path || out[j-1].Path == out[j].Path && out[j-1].Value > out[j].Value); j-- {
			out[j-1], out[j] = out[j], out[j-1]
		}
	}
	return out
}

// event-level paths: from HistoryEvent to a namespace-name field
func eventNamePaths() []gen.Path {
	hd := (&historypb.HistoryEvent{}).ProtoReflect().Descriptor()
	return gen.EnumeratePaths(hd, gen.IsNamespaceNameField, 2, 10, 100000)
}

func popOpts(rng *rand.Rand, names, keys []string) *gen.PopOpts {
	return &gen.PopOpts{Rng: rng, MaxDepth: 6, NamePool: names, KeyPool: keys, FieldProb: 0.35, BlobEvents: 3}
}

func violation(prop, sig, what string, witness any) rec.Violation {
	return rec.Violation{Prop: prop, Sig: sig, What: what, Witness: witness}
}

func jsonOf(m proto.Message) string {
	s := fmt.Sprint(m)
	if len(s) > 1500 {
		s = s[:1500] + "…"
	}
	return s
}

// dirtyTwin serializes evs together with an ActivityTaskFailed event whose failure message holds invalid UTF-8
// (the bytes are patched into the serialized form - same length, so the framing stays valid; Go's marshaller
// refuses to write such a string), and returns the clean twin too. The proxy repairs such blobs through its
// legacy decoder before translating them: a blob that needed repair must still be translated and checked.
const dirtyMarker = "ZZQQZZQQ"

func dirtyTwin(evs []*historypb.HistoryEvent, badFirst bool) (clean, dirty *commonpb.DataBlob) {
	bad := &historypb.HistoryEvent{EventId: 99, EventType: enumspb.EVENT_TYPE_ACTIVITY_TASK_FAILED, Attributes: &historypb.HistoryEvent_ActivityTaskFailedEventAttributes{
		ActivityTaskFailedEventAttributes: &historypb.ActivityTaskFailedEventAttributes{Failure: &failurepb.Failure{Message: dirtyMarker}, ScheduledEventId: 1, StartedEventId: 2}}}
	all := append(append([]*historypb.HistoryEvent{}, evs...), bad)
	if badFirst {
		all = append([]*historypb.HistoryEvent{bad}, evs...)
	}
	clean = gen.EncodeEvents(all)
	dirty = proto.Clone(clean).(*commonpb.DataBlob)
	dirty.Data = bytes.Replace(dirty.Data, []byte(dirtyMarker), []byte("ZZ\xff\xfeQQZZ"), 1)
	return clean, dirty
}

func putBlob(msg proto.Message, bp gen.Path, blob *commonpb.DataBlob) {
	parent, f := gen.Descend(msg, bp)
	if f.IsList() {
		parent.Mutable(f).List().Append(protoreflect.ValueOfMessage(blob.ProtoReflect()))
	} else {
		parent.Set(f, protoreflect.ValueOfMessage(blob.ProtoReflect()))
	}
}

// sitePaths: the multiset of site paths (values dropped) - the "shape" of what a walk found
func sitePaths(s []gen.Site) string {
	var b strings.Builder
	for _, x := range sortedSites(s) {
		b.WriteString(x.Path)
		b.WriteByte('\n')
	}
	return b.String()
}
