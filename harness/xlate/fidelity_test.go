package xlate

import (
	"fmt"
	"math/rand"
	"testing"

	"google.golang.org/protobuf/proto"

	"github.com/temporalio/s2s-proxy/config"
	"github.com/temporalio/s2s-proxy/interceptor"
	"verifharness/fakes"
	"verifharness/gen"
	"verifharness/rec"
)

// blank: every namespace-name site set to "" and every search-attribute key replaced by its
// position - what remains is "everything else".
func blank(m proto.Message) proto.Message {
	c := canonicalBlobs(m)
	all := map[string]string{}
	for _, s := range gen.NamespaceSites(c) {
		all[s.Value] = ""
	}
	gen.TranslateNamespaces(c, all)
	return canonicalBlobs(c)
}

type nsMapping struct {
	name    string
	l2r     map[string]string // local -> remote
	outside []string          // names outside keys and values
}

func inverse(m map[string]string) map[string]string {
	o := map[string]string{}
	for k, v := range m {
		o[v] = k
	}
	return o
}

var mappings = []nsMapping{
	{"disjoint", map[string]string{"a-local": "a-remote", "b-local": "b-remote"}, []string{"zzz", "", "a-local-x", "A-LOCAL", "a-", "a-remote2"}},
	{"chain", map[string]string{"n1": "n2", "n2": "n3", "n3": "n4"}, []string{"n0", "n5", "", "n", "n11"}},
	{"prefix", map[string]string{"orders": "orders-v2", "orders-legacy": "orders"}, []string{"order", "orders-", "Orders", "", "orders-v22"}},
	{"single", map[string]string{"x": "y"}, []string{"z", "", "xy", "yx"}},
}

// TestFidelity serves C13 (in-process part): nothing else changes, messages without matches
// come out identical (blobs byte-identical), round trips restore the original, non-injective
// configurations are rejected.
func TestFidelity(t *testing.T) {
	out := rec.Default()
	probe := fakes.NewProbe(1)
	roots := allRoots()
	n := 3000
	if rec.Thorough() {
		n = 4000000
	}
	idx := 0
	for k := 0; k < n; k += 50 {
		idx++
		name := fmt.Sprintf("roundtrip/%d", k)
		if !rec.Want(idx, name) {
			continue
		}
		out.Begin(name, nil)
		rng := rand.New(rand.NewSource(rec.Mix(rec.Seed(), name)))
		var viol []rec.Violation
		counts := map[string]int64{}
		classes := map[string]bool{}
		for j := 0; j < 50; j++ {
			mp := mappings[rng.Intn(len(mappings))]
			r := roots[rng.Intn(len(roots))]
			// inbound server: requests remote->local, responses local->remote; outbound: the opposite
			for _, server := range []string{"inbound", "outbound"} {
				reqM, respM := inverse(mp.l2r), mp.l2r
				if server == "outbound" {
					reqM, respM = mp.l2r, inverse(mp.l2r)
				}
				ns := interceptor.NewNamespaceNameTranslator(probe, reqM, respM)
				// (one-to-one, with a chain and a swap: the local and the remote key sets overlap)
				saReq := map[string]map[string]string{"nsid": {"CustomA": "RemoteA", "CustomB": "RemoteB", "ChainA": "ChainB", "ChainB": "ChainC", "SwapX": "SwapY", "SwapY": "SwapX"}}
				saResp := map[string]map[string]string{"nsid": {"RemoteA": "CustomA", "RemoteB": "CustomB", "ChainB": "ChainA", "ChainC": "ChainB", "SwapY": "SwapX", "SwapX": "SwapY"}}
				sa := interceptor.NewSearchAttributeTranslator(probe, saReq, saResp)
				// domain: names that are keys of the request map, or outside keys and values
				var pool []string
				for k := range reqM {
					pool = append(pool, k)
				}
				pool = append(pool, mp.outside...)
				msg := gen.Populate(r.md, popOpts(rng, pool, []string{"CustomA", "CustomB", "Other1", "Other2", "ChainA", "ChainB", "SwapX", "SwapY"}))
				counts["messages"]++
				// (1)+(2): after request-side translation only name sites / SA keys differ
				t1 := proto.Clone(msg)
				if _, err := ns.TranslateRequest(t1); err != nil {
					viol = append(viol, violation("C13", "translate-error:"+r.String(), fmt.Sprintf("%s: namespace translator error: %v", r, err), jsonOf(msg)))
					continue
				}
				if !proto.Equal(blank(t1), blank(msg)) {
					viol = append(viol, violation("C13", "other-field-changed:"+r.String(), fmt.Sprintf("%s (%s server, mapping %s): a field that is not a namespace name changed during namespace translation", r, server, mp.name), map[string]any{"before": jsonOf(msg), "after": jsonOf(t1)}))
				}
				want := proto.Clone(msg)
				_, changed := gen.TranslateNamespaces(want, reqM)
				if changed == 0 && !proto.Equal(t1, msg) {
					viol = append(viol, violation("C13", "nothing-to-map-but-changed:"+r.String(), fmt.Sprintf("%s: no mapped name occurs, yet the message (or a blob's bytes) changed", r), map[string]any{"before": jsonOf(msg), "after": jsonOf(t1)}))
				}
				if changed > 0 {
					classes[r.String()+"|"+mp.name+"|"+server] = true
					counts["messages_with_mapped_names"]++
				}
				// (3) round trip: response-side translation of the translated message restores it
				t2 := proto.Clone(t1)
				if _, err := ns.TranslateResponse(t2); err == nil {
					if !equalModuloBlobEncoding(t2, msg) {
						p, g, w := firstDiff(sortedSites(gen.NamespaceSites(t2)), sortedSites(gen.NamespaceSites(msg)))
						viol = append(viol, violation("C13", "round-trip-not-identity:"+mp.name, fmt.Sprintf("%s (%s server, mapping %s %v): request-side then response-side translation does not restore the original: %s = %q, was %q", r, server, mp.name, mp.l2r, p, g, w), jsonOf(msg)))
					} else {
						counts["round_trips_ok"]++
					}
				}
				// search attributes: admin methods only; same three checks
				if sa.MatchMethod(r.m.FullName) {
					s1 := proto.Clone(msg)
					if _, err := sa.TranslateRequest(s1); err == nil {
						keysBefore, keysAfter := len(gen.SASites(msg)), len(gen.SASites(s1))
						if keysBefore != keysAfter {
							viol = append(viol, violation("C13", "sa-key-count-changed:"+r.String(), fmt.Sprintf("%s: %d search-attribute keys before, %d after", r, keysBefore, keysAfter), jsonOf(msg)))
						}
						s2 := proto.Clone(s1)
						if _, err := sa.TranslateResponse(s2); err == nil && !equalModuloBlobEncoding(s2, msg) {
							// domain restriction: unmapped keys must not equal mapping targets (they do not: Other1/Other2)
							viol = append(viol, violation("C13", "sa-round-trip-not-identity:"+r.String(), fmt.Sprintf("%s: search-attribute round trip does not restore the original", r), jsonOf(msg)))
						}
					}
				}
			}
		}
		var cl []string
		for c := range classes {
			cl = append(cl, c)
		}
		out.End(rec.Line{Case: name, Viol: dedupe(viol), Counts: counts, Classes: cl})
	}
	// path-wise round trips with chained mappings: every structural path, every key of the chain
	for _, r := range roots {
		idx++
		name := "roundtrip-paths/" + r.String()
		if !rec.Want(idx, name) {
			continue
		}
		paths := gen.EnumeratePaths(r.md, gen.IsNamespaceNameField, 2, 14, 100000)
		if len(paths) == 0 {
			continue
		}
		out.Begin(name, nil)
		var viol []rec.Violation
		counts := map[string]int64{}
		var classes []string
		for _, mp := range mappings[1:3] { // chain, prefix (also a chain)
			for _, server := range []string{"inbound", "outbound"} {
				reqM, respM := inverse(mp.l2r), mp.l2r
				if server == "outbound" {
					reqM, respM = mp.l2r, inverse(mp.l2r)
				}
				ns := interceptor.NewNamespaceNameTranslator(probe, reqM, respM)
				for _, p := range paths {
					for key := range reqM {
						msg := gen.New(r.md)
						gen.SetString(msg, p, key)
						t1 := proto.Clone(msg)
						if _, err := ns.TranslateRequest(t1); err != nil {
							continue
						}
						want := proto.Clone(msg)
						gen.TranslateNamespaces(want, reqM)
						counts["path_round_trips"]++
						if !equalModuloBlobEncoding(t1, want) {
							viol = append(viol, violation("C13", "wrong-direction-or-double-translation:"+mp.name, fmt.Sprintf("%s (%s server, mapping %v): %s = %q translated to something other than %q", r, server, reqM, p, key, reqM[key]), jsonOf(t1)))
							continue
						}
						if _, err := ns.TranslateResponse(t1); err == nil && !equalModuloBlobEncoding(t1, msg) {
							viol = append(viol, violation("C13", "round-trip-not-identity:"+mp.name, fmt.Sprintf("%s (%s server, mapping %v): round trip of %s = %q does not restore it", r, server, mp.l2r, p, key), jsonOf(t1)))
						}
					}
					classes = append(classes, r.String()+"|"+mp.name+"|"+server+"|"+p.String())
				}
			}
		}
		out.End(rec.Line{Case: name, Viol: dedupe(viol), Counts: counts, Classes: classes})
	}
	// search-attribute keys under a one-to-one mapping whose local and remote key sets overlap (chain and swap),
	// all affected keys in one container: nothing may be lost, the round trip restores the original
	saOvReq := map[string]map[string]string{"nsid": {"ChainA": "ChainB", "ChainB": "ChainC", "SwapX": "SwapY", "SwapY": "SwapX"}}
	saOvResp := map[string]map[string]string{"nsid": {"ChainB": "ChainA", "ChainC": "ChainB", "SwapY": "SwapX", "SwapX": "SwapY"}}
	saOv := interceptor.NewSearchAttributeTranslator(probe, saOvReq, saOvResp)
	for _, r := range roots {
		if r.m.Service != gen.AdminServiceName {
			continue
		}
		paths := gen.EnumeratePaths(r.md, isSAContainer, 2, 14, 100000)
		if len(paths) == 0 {
			continue
		}
		idx++
		name := "sa-overlap/" + r.String()
		if !rec.Want(idx, name) {
			continue
		}
		out.Begin(name, nil)
		var viol []rec.Violation
		counts := map[string]int64{}
		var classes []string
		for _, p := range paths {
			for rep := 0; rep < 4; rep++ { // (Go map iteration order varies from run to run of the translator)
				msg := gen.New(r.md)
				fwd, back, mapping := saOv.TranslateRequest, saOv.TranslateResponse, saOvReq["nsid"]
				keys := []string{"ChainA", "ChainB", "SwapX", "SwapY", "Other1"}
				if r.isResp {
					fwd, back, mapping = saOv.TranslateResponse, saOv.TranslateRequest, saOvResp["nsid"]
					keys = []string{"ChainB", "ChainC", "SwapX", "SwapY", "Other1"}
				}
				putSA(msg, p, keys)
				t1 := proto.Clone(msg)
				if _, err := fwd(t1); err != nil {
					continue
				}
				counts["sa_overlap_cases"]++
				want := proto.Clone(msg)
				gen.TranslateSearchAttributes(want, mapping)
				if !equalModuloBlobEncoding(t1, want) {
					viol = append(viol, violation("C13", "sa-overlapping-mapping-wrong:"+r.String(), fmt.Sprintf("%s: keys ChainA,ChainB,SwapX,SwapY,Other1 at %s under {ChainA->ChainB, ChainB->ChainC, SwapX<->SwapY}: %d keys before, %d after, or a payload moved to the wrong key", r, p, len(gen.SASites(msg)), len(gen.SASites(t1))), jsonOf(t1)))
					continue
				}
				if _, err := back(t1); err == nil && !equalModuloBlobEncoding(t1, msg) {
					viol = append(viol, violation("C13", "sa-round-trip-not-identity:"+r.String(), fmt.Sprintf("%s: search-attribute round trip at %s under an overlapping one-to-one mapping does not restore the original", r, p), jsonOf(t1)))
				}
			}
			classes = append(classes, "sa-overlap:"+r.String()+":"+p.String())
		}
		out.End(rec.Line{Case: name, Viol: dedupe(viol), Counts: counts, Classes: classes})
	}
	// configurations: every mapping list over a 4-name alphabet up to length 3
	idx++
	if rec.Want(idx, "configs") {
		out.Begin("configs", nil)
		names := []string{"a", "b", "c", "d"}
		var viol []rec.Violation
		counts := map[string]int64{}
		var lists [][]config.StringMapping
		var rec1 func(cur []config.StringMapping, depth int)
		rec1 = func(cur []config.StringMapping, depth int) {
			lists = append(lists, append([]config.StringMapping{}, cur...))
			if depth == 3 {
				return
			}
			for _, l := range names {
				for _, r := range names {
					rec1(append(cur, config.StringMapping{Local: l, Remote: r}), depth+1)
				}
			}
		}
		rec1(nil, 0)
		var classes []string
		for _, lst := range lists {
			locals, remotes := map[string]bool{}, map[string]bool{}
			injective := true
			for _, m := range lst {
				if locals[m.Local] || remotes[m.Remote] {
					injective = false
				}
				locals[m.Local], remotes[m.Remote] = true, true
			}
			st := config.StringTranslator{Mappings: lst}
			_, err := st.AsLocalToRemoteBiMap()
			counts["mapping_lists"]++
			if injective && err != nil {
				viol = append(viol, violation("C13", "config:one-to-one-rejected", fmt.Sprintf("one-to-one namespace mapping %v rejected: %v", lst, err), nil))
			}
			if !injective && err == nil {
				viol = append(viol, violation("C13", "config:non-injective-accepted", fmt.Sprintf("namespace mapping %v repeats a local or remote name but was accepted", lst), nil))
			}
			// the same list as a search-attribute mapping
			var pairs []config.SAMapping
			for _, m := range lst {
				pairs = append(pairs, config.SAMapping{LocalName: m.Local, RemoteName: m.Remote})
			}
			sac := config.SATranslationConfig{NamespaceMappings: []config.SANamespaceMapping{{NamespaceId: "ns1", Mappings: pairs}}}
			_, err = sac.AsLocalToRemoteSATranslation()
			if injective && err != nil {
				viol = append(viol, violation("C13", "config:sa-one-to-one-rejected", fmt.Sprintf("one-to-one search-attribute mapping %v rejected: %v", lst, err), nil))
			}
			if !injective && err == nil {
				viol = append(viol, violation("C13", "config:sa-non-injective-accepted", fmt.Sprintf("search-attribute mapping %v repeats a name but was accepted", lst), nil))
			}
			if len(classes) < 5000 {
				classes = append(classes, fmt.Sprint("cfg", lst))
			}
		}
		counts["exhaustive_blocks_completed"] = 1
		out.End(rec.Line{Case: "configs", Viol: dedupe(viol), Counts: counts, Classes: classes,
			Sample: map[string]any{"example_list": lists[len(lists)/2], "lists": len(lists)}})
	}
}
