package xlate

import (
	"bytes"
	"context"
	"fmt"
	"math/rand"
	"testing"

	commonpb "go.temporal.io/api/common/v1"
	enumspb "go.temporal.io/api/enums/v1"
	historypb "go.temporal.io/api/history/v1"
	namespacepb "go.temporal.io/api/namespace/v1"
	"go.temporal.io/api/workflowservice/v1"
	"google.golang.org/grpc"
	"google.golang.org/grpc/codes"
	"google.golang.org/grpc/metadata"
	"google.golang.org/grpc/status"
	"google.golang.org/protobuf/proto"
	"google.golang.org/protobuf/reflect/protoreflect"

	"github.com/temporalio/s2s-proxy/auth"
	s2scommon "github.com/temporalio/s2s-proxy/common"
	"github.com/temporalio/s2s-proxy/interceptor"
	"github.com/temporalio/s2s-proxy/proxy"
	"verifharness/fakes"
	"verifharness/gen"
	"verifharness/rec"
)

// TestACL serves C16 (in-process part): the chain translation -> access control -> handler,
// composed in the order makeServerOptions composes it, for every request type and every
// namespace path.
func TestACL(t *testing.T) {
	out := rec.Default()
	probe := fakes.NewProbe(1)
	// allowed local namespace "allowed-local"; with translation its remote form is "allowed-remote"
	nsReq := map[string]string{"allowed-remote": "allowed-local", "forbidden-remote": "forbidden-local"}
	nsResp := map[string]string{"allowed-local": "allowed-remote", "forbidden-local": "forbidden-remote"}
	tin := interceptor.NewTranslationInterceptor(probe, []interceptor.Translator{interceptor.NewNamespaceNameTranslator(probe, nsReq, nsResp)})
	acl := interceptor.NewAccessControlInterceptor(probe, nil, []string{"allowed-local"})
	evPaths := eventNamePaths()

	type variant struct {
		name        string
		translation bool
		bypass      bool
		allowed     string // how an allowed name is written by the caller
		forbidden   string
	}
	variants := []variant{
		{"plain", false, false, "allowed-local", "other-ns"},
		{"translated", true, false, "allowed-remote", "forbidden-remote"},
		// a name that is *allowed-looking remotely* but maps to a forbidden local one, and vice versa
		{"translated-unmapped", true, false, "allowed-remote", "allowed-local-not"},
		{"bypass-header", true, true, "allowed-local", "forbidden-local"},
	}
	var lastDelivered proto.Message // what the local cluster's handler was given by the latest call
	call := func(v variant, m gen.Method, req proto.Message) (reached bool, err error) {
		lastDelivered = nil
		ctx := context.Background()
		if v.bypass {
			ctx = metadata.NewIncomingContext(ctx, metadata.Pairs("s2s-request-translation", "false"))
		}
		info := &grpc.UnaryServerInfo{FullMethod: m.FullName}
		final := func(ctx context.Context, req any) (any, error) {
			reached = true
			lastDelivered, _ = req.(proto.Message)
			return gen.New(m.Out), nil
		}
		withACL := func(ctx context.Context, req any) (any, error) { return acl.Intercept(ctx, req, info, final) }
		if v.translation {
			_, err = tin.Intercept(ctx, req, info, withACL)
		} else {
			_, err = withACL(ctx, req)
		}
		return
	}
	idx := 0
	sampled := 0
	for _, m := range gen.AllMethods() {
		if m.ClientStreaming {
			continue // the only streaming request type carries no namespace field; streams are C15's business
		}
		idx++
		name := "acl-paths/" + m.Name
		if !rec.Want(idx, name) {
			continue
		}
		out.Begin(name, map[string]any{"method": m.FullName})
		r := root{m, m.In, false}
		var viol []rec.Violation
		var classes []string
		counts := map[string]int64{}
		always := m.Service == gen.WorkflowServiceName && (m.Name == "RegisterNamespace" || m.Name == "DeprecateNamespace")
		check := func(v variant, msg proto.Message, forbidden bool, what string) {
			reached, err := call(v, m, proto.Clone(msg))
			counts["acl_calls"]++
			switch {
			case forbidden || always:
				if reached || status.Code(err) != codes.PermissionDenied {
					sig := "forbidden-namespace-reached-local-cluster:" + m.Name + ":" + what
					viol = append(viol, violation("C16", sig, fmt.Sprintf("%s [%s]: request naming a namespace outside the allow-list at %s was forwarded (reached=%v, err=%v)", m.Name, v.name, what, reached, err), jsonOf(msg)))
				} else {
					counts["denied"]++
				}
			default:
				if !reached || err != nil {
					viol = append(viol, violation("C16", "allowed-request-refused:"+m.Name, fmt.Sprintf("%s [%s]: request naming only the allowed namespace (%s) was refused: %v", m.Name, v.name, what, err), jsonOf(msg)))
				} else {
					counts["forwarded"]++
				}
			}
		}
		paths := gen.EnumeratePaths(r.md, gen.IsNamespaceNameField, 2, 14, 100000)
		blobPaths := gen.EnumeratePaths(r.md, gen.IsEventBlobSite, 2, 14, 100000)
		for _, v := range variants {
			for _, p := range paths {
				for _, forb := range []bool{true, false} {
					msg := gen.New(r.md)
					gen.SetString(msg, p, v.allowed) // builds the structure along the path
					gen.FillNamespaceSites(msg, v.allowed)
					if forb {
						gen.SetString(msg, p, v.forbidden)
					}
					check(v, msg, forb, normPath("."+p.String()))
				}
				classes = append(classes, m.Name+":"+v.name+":"+p.String())
			}
			for _, bp := range blobPaths {
				for ei, ep := range evPaths {
					if ei%2 == 1 && !rec.Thorough() && v.name != "translated" {
						continue
					}
					for _, forb := range []bool{true, false} {
						ev := &historypb.HistoryEvent{EventId: 5}
						val := v.allowed
						if forb {
							val = v.forbidden
						}
						gen.SetString(ev, ep, val)
						ok := &historypb.HistoryEvent{EventId: 4}
						gen.SetString(ok, evPaths[0], v.allowed)
						msg := gen.New(r.md)
						parent, f := gen.Descend(msg, bp)
						gen.FillNamespaceSites(ok, v.allowed)
						gen.FillNamespaceSites(ev, v.allowed)
						if forb {
							gen.SetString(ev, ep, v.forbidden)
						}
						blob := gen.EncodeEvents([]*historypb.HistoryEvent{ok, ev})
						if (ei+len(bp.String()))%4 == 3 { // JSON-encoded batch: the serializer reads it just the same
							blob = gen.EncodeEventsJSON([]*historypb.HistoryEvent{ok, ev})
							counts["blob_cases_json"]++
						}
						if f.IsList() {
							parent.Mutable(f).List().Append(protoreflect.ValueOfMessage(blob.ProtoReflect()))
						} else {
							parent.Set(f, protoreflect.ValueOfMessage(blob.ProtoReflect()))
						}
						// everything outside the blob names the allowed namespace
						fillOutsideBlobs(msg, v.allowed)
						check(v, msg, forb, normPath("."+bp.String()+".<events>."+ep.String()))
					}
					if ei%2 == 0 || rec.Thorough() {
						// the forbidden name in a batch that needs UTF-8 repair before it can be read (invalid bytes in a
						// failure message of a neighbouring event): the repaired batch must still be checked
						ev := &historypb.HistoryEvent{EventId: 5}
						gen.SetString(ev, ep, v.forbidden)
						ok := &historypb.HistoryEvent{EventId: 4}
						gen.SetString(ok, evPaths[0], v.allowed)
						gen.FillNamespaceSites(ok, v.allowed)
						gen.FillNamespaceSites(ev, v.allowed)
						gen.SetString(ev, ep, v.forbidden)
						_, dirty := dirtyTwin([]*historypb.HistoryEvent{ok, ev}, ei%4 == 0)
						msg := gen.New(r.md)
						putBlob(msg, bp, dirty)
						fillOutsideBlobs(msg, v.allowed)
						counts["repaired_blob_forbidden_cases"]++
						// Judged on what the local cluster is given: the repair goes through the legacy (1.22) schema, which drops
						// event attributes it does not know (e.g. Nexus events) - a name that no longer exists in the delivered
						// request did not reach the local cluster (that loss is not C16's business and is counted, not reported)
						reached, _ := call(v, m, proto.Clone(msg))
						stillThere := false
						if reached && lastDelivered != nil {
							if b, e := (proto.MarshalOptions{AllowPartial: true}).Marshal(lastDelivered); e == nil {
								stillThere = bytes.Contains(b, []byte(v.forbidden)) || (nsReq[v.forbidden] != "" && bytes.Contains(b, []byte(nsReq[v.forbidden])))
							}
						}
						if reached && !stillThere {
							counts["repaired_blob_name_dropped_by_legacy_repair_not_judged"]++
						} else {
							check(v, msg, true, normPath("."+bp.String()+".<events needing utf-8 repair>."+ep.String()))
						}
					}
					classes = append(classes, m.Name+":"+v.name+":"+bp.String()+"<"+ep.String()+">")
				}
			}
		}
		// undecodable history blobs: a blob the proxy cannot decode must not let a forbidden name elsewhere
		// in the same request through (the walk stops at the bad blob: the request has to be refused)
		corrupt := []*commonpb.DataBlob{
			{EncodingType: enumspb.ENCODING_TYPE_PROTO3, Data: []byte{0x0a, 0xff, 0xff, 0xff, 0x01}},
			{EncodingType: enumspb.ENCODING_TYPE_PROTO3, Data: []byte("\x0a\x05\x08\x01\x1a")},
			{EncodingType: enumspb.ENCODING_TYPE_JSON, Data: []byte("{not json")},
			{EncodingType: enumspb.EncodingType(77), Data: []byte("whatever")},
		}
		for vi, v := range variants {
			for bi, bp := range blobPaths {
				for pi, p := range paths {
					cb := corrupt[(vi+bi+pi)%len(corrupt)]
					msg := gen.New(r.md)
					gen.SetString(msg, p, v.allowed)
					parent, f := gen.Descend(msg, bp)
					if f.IsList() {
						parent.Mutable(f).List().Append(protoreflect.ValueOfMessage(proto.Clone(cb).ProtoReflect()))
						// and a well-formed batch naming the forbidden namespace after the corrupt one
						ev := &historypb.HistoryEvent{EventId: 9}
						gen.SetString(ev, evPaths[(bi+pi)%len(evPaths)], v.forbidden)
						gen.FillNamespaceSites(ev, v.forbidden)
						parent.Mutable(f).List().Append(protoreflect.ValueOfMessage(gen.EncodeEvents([]*historypb.HistoryEvent{ev}).ProtoReflect()))
					} else {
						parent.Set(f, protoreflect.ValueOfMessage(proto.Clone(cb).ProtoReflect()))
					}
					fillOutsideBlobs(msg, v.allowed)
					gen.SetString(msg, p, v.forbidden)
					check(v, msg, true, "undecodable-blob-plus-forbidden:"+normPath("."+p.String()))
					counts["undecodable_blob_cases"]++
				}
			}
		}
		// combinations: random populated requests whose names are all allowed, then one or two flipped
		rng := rand.New(rand.NewSource(rec.Mix(rec.Seed(), name)))
		nComb := 6
		if rec.Thorough() {
			nComb = 3000
		}
		for k := 0; k < nComb; k++ {
			v := variants[k%len(variants)]
			msg := gen.Populate(r.md, popOpts(rng, []string{v.allowed}, []string{"k"}))
			gen.FillNamespaceSites(msg, v.allowed)
			check(v, msg, false, "random-all-allowed")
			// flip one of the sites outside blobs
			total := 0
			flipNth(proto.Clone(msg), -1, "", &total)
			if total == 0 {
				continue
			}
			cnt := 0
			m2 := proto.Clone(msg)
			flipNth(m2, rng.Intn(total), v.forbidden, &cnt)
			check(v, m2, true, "random-one-forbidden")
			counts["combination_cases"]++
		}
		l := rec.Line{Case: name, Viol: dedupe(viol), Counts: counts, Classes: classes}
		if sampled < 2 && len(paths) > 1 {
			sampled++
			mm := gen.New(r.md)
			gen.SetString(mm, paths[len(paths)-1], "forbidden-remote")
			l.Sample = map[string]any{"method": m.FullName, "path": paths[len(paths)-1].String(), "request": jsonOf(mm)}
		}
		out.End(l)
	}
	// ListNamespaces: only allowed namespaces come back (filtered on local names, then translated)
	idx++
	if rec.Want(idx, "list-namespaces") {
		out.Begin("list-namespaces", nil)
		var viol []rec.Violation
		counts := map[string]int64{}
		rng := rand.New(rand.NewSource(rec.Seed()))
		nList := 300
		if rec.Thorough() {
			nList = 100000
		}
		for k := 0; k < nList; k++ {
			var local []*workflowservice.DescribeNamespaceResponse
			want := 0
			for i := 0; i < rng.Intn(7); i++ {
				n := []string{"allowed-local", "forbidden-local", "other", "allowed-local2", "", "allowed-remote"}[rng.Intn(6)]
				if n == "allowed-local" {
					want++
				}
				local = append(local, &workflowservice.DescribeNamespaceResponse{NamespaceInfo: &namespacepb.NamespaceInfo{Name: n, Id: fmt.Sprint("id-", i)}})
			}
			fake := &fakeWF{resp: &workflowservice.ListNamespacesResponse{Namespaces: local}}
			srv := proxy.NewWorkflowServiceProxyServer("inboundWorkflowService", fake, auth.NewAccesControl([]string{"allowed-local"}), probe)
			info := &grpc.UnaryServerInfo{FullMethod: "/" + gen.WorkflowServiceName + "/ListNamespaces"}
			// every other trial carries the translation-bypass header: names then come back untranslated, filtered all the same
			bypass := k%2 == 1
			lctx, wantName := context.Background(), "allowed-remote"
			if bypass {
				lctx, wantName = metadata.NewIncomingContext(lctx, metadata.Pairs(s2scommon.RequestTranslationHeaderName, "false")), "allowed-local"
				counts["list_namespaces_calls_with_bypass_header"]++
			}
			resp, err := tin.Intercept(lctx, &workflowservice.ListNamespacesRequest{}, info, func(ctx context.Context, req any) (any, error) {
				return acl.Intercept(ctx, req, info, func(ctx context.Context, req any) (any, error) {
					return srv.ListNamespaces(ctx, req.(*workflowservice.ListNamespacesRequest))
				})
			})
			counts["list_namespaces_calls"]++
			if err != nil {
				viol = append(viol, violation("C16", "list-namespaces-error", fmt.Sprintf("ListNamespaces failed: %v", err), nil))
				continue
			}
			got := resp.(*workflowservice.ListNamespacesResponse)
			bad := len(got.Namespaces) != want
			for _, n := range got.Namespaces {
				if n.NamespaceInfo.GetName() != wantName {
					bad = true
				}
			}
			if bad {
				viol = append(viol, violation("C16", "list-namespaces-not-filtered", fmt.Sprintf("ListNamespaces (bypass header: %v) returned %v for local list %v with only allowed-local permitted", bypass, got.Namespaces, local), nil))
			}
		}
		out.End(rec.Line{Case: "list-namespaces", Viol: dedupe(viol), Counts: counts, Class: "list-namespaces"})
	}
}

type fakeWF struct {
	workflowservice.WorkflowServiceClient
	resp *workflowservice.ListNamespacesResponse
}

func (f *fakeWF) ListNamespaces(ctx context.Context, in *workflowservice.ListNamespacesRequest, _ ...grpc.CallOption) (*workflowservice.ListNamespacesResponse, error) {
	return proto.Clone(f.resp).(*workflowservice.ListNamespacesResponse), nil
}

// flipNth overwrites the n-th top-level (non-blob) namespace site found by a deterministic walk.
func flipNth(m proto.Message, n int, val string, cnt *int) {
	var walk func(pm protoreflect.Message)
	walk = func(pm protoreflect.Message) {
		fds := pm.Descriptor().Fields()
		for i := 0; i < fds.Len(); i++ {
			f := fds.Get(i)
			if !pm.Has(f) {
				continue
			}
			v := pm.Get(f)
			switch {
			case f.IsMap():
			case f.IsList():
				if f.Message() != nil && !gen.IsEventBlobSite(f) {
					for j := 0; j < v.List().Len(); j++ {
						walk(v.List().Get(j).Message())
					}
				}
			case f.Message() != nil:
				if !gen.IsEventBlobSite(f) {
					walk(v.Message())
				}
			case gen.IsNamespaceNameField(f):
				if *cnt == n {
					pm.Set(f, protoreflect.ValueOfString(val))
				}
				*cnt++
			}
		}
	}
	walk(m.ProtoReflect())
}

// fillOutsideBlobs: FillNamespaceSites but leaving the (already prepared) blobs alone.
func fillOutsideBlobs(m proto.Message, val string) {
	var fill func(pm protoreflect.Message)
	fill = func(pm protoreflect.Message) {
		fds := pm.Descriptor().Fields()
		for i := 0; i < fds.Len(); i++ {
			f := fds.Get(i)
			if gen.IsNamespaceNameField(f) && !f.IsList() && f.ContainingOneof() == nil {
				pm.Set(f, protoreflect.ValueOfString(val))
				continue
			}
			if !pm.Has(f) || f.Message() == nil && !f.IsMap() || gen.IsEventBlobSite(f) {
				continue
			}
			v := pm.Get(f)
			switch {
			case f.IsMap():
				if f.MapValue().Message() != nil {
					v.Map().Range(func(_ protoreflect.MapKey, mv protoreflect.Value) bool { fill(mv.Message()); return true })
				}
			case f.IsList():
				for j := 0; j < v.List().Len(); j++ {
					fill(v.List().Get(j).Message())
				}
			default:
				fill(v.Message())
			}
		}
	}
	fill(m.ProtoReflect())
}
