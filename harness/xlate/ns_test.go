package xlate

import (
	"fmt"
	"math/rand"
	"testing"

	commonpb "go.temporal.io/api/common/v1"
	historypb "go.temporal.io/api/history/v1"
	"google.golang.org/protobuf/proto"
	"google.golang.org/protobuf/reflect/protoreflect"

	"github.com/temporalio/s2s-proxy/interceptor"
	"verifharness/fakes"
	"verifharness/gen"
	"verifharness/rec"
)

var (
	// request side maps remote->local, response side local->remote (as the inbound server);
	// the chain b->c, c->d checks that nothing is translated twice
	reqMap   = map[string]string{"remote-ns": "local-ns", "ns-b": "ns-c", "ns-c": "ns-d"}
	respMap  = map[string]string{"local-ns": "remote-ns", "ns-c": "ns-b", "ns-d": "ns-c"}
	namePool = []string{"remote-ns", "local-ns", "ns-b", "ns-c", "ns-d", "other", "", "remote-ns-suffix", "REMOTE-NS", "remote", "x-remote-ns"}
)

// checkNS runs the real namespace translator on a clone and compares with the oracle.
func checkNS(tr interceptor.Translator, r root, msg proto.Message, kind string) []rec.Violation {
	mapping := reqMap
	real := proto.Clone(msg)
	var err error
	if r.isResp {
		mapping = respMap
		_, err = tr.TranslateResponse(real)
	} else {
		_, err = tr.TranslateRequest(real)
	}
	want := proto.Clone(msg)
	gen.TranslateNamespaces(want, mapping)
	if err != nil {
		return []rec.Violation{violation("C12", "ns-translate-error:"+r.String(), fmt.Sprintf("%s: translator returned an error on a well-formed message: %v", r, err), map[string]any{"kind": kind, "message": jsonOf(msg)})}
	}
	if equalModuloBlobEncoding(real, want) {
		return nil
	}
	p, g, w := firstDiff(sortedSites(gen.NamespaceSites(real)), sortedSites(gen.NamespaceSites(want)))
	if p == "" {
		// name sites agree but something else differs: that is C13's business (reported there too)
		return []rec.Violation{violation("C13", "ns-translation-touched-other-field:"+r.String(), fmt.Sprintf("%s: every namespace site is as expected but the message differs elsewhere after namespace translation", r), map[string]any{"kind": kind, "message": jsonOf(msg), "after": jsonOf(real)})}
	}
	return []rec.Violation{violation("C12", "ns-untranslated:"+r.String()+":"+normPath(p), fmt.Sprintf("%s: namespace field %s holds %q after translation, expected %q", r, p, g, w),
		map[string]any{"kind": kind, "message": jsonOf(msg)})}
}

// checkNSDirty: as checkNS for a blob that needs UTF-8 repair first (see dirtyTwin); judged only when the translator
// succeeds and the repaired result has the same name sites as the clean twin (the rest is C17's business).
func checkNSDirty(tr interceptor.Translator, r root, clean, dirty proto.Message, counts map[string]int64, kind string) []rec.Violation {
	mapping := reqMap
	real := proto.Clone(dirty)
	var err error
	if r.isResp {
		mapping = respMap
		_, err = tr.TranslateResponse(real)
	} else {
		_, err = tr.TranslateRequest(real)
	}
	if err != nil {
		counts["repaired_blob_translator_error_not_judged"]++
		return nil
	}
	want := proto.Clone(clean)
	gen.TranslateNamespaces(want, mapping)
	got, w := gen.NamespaceSites(real), gen.NamespaceSites(want)
	if sitePaths(got) != sitePaths(w) {
		counts["repaired_blob_shape_differs_not_judged"]++
		return nil
	}
	counts["repaired_blob_judged"]++
	p, g, wv := firstDiff(sortedSites(got), sortedSites(w))
	if p == "" {
		return nil
	}
	return []rec.Violation{violation("C12", "ns-untranslated-in-repaired-blob:"+r.String()+":"+normPath(p), fmt.Sprintf("%s: namespace field %s inside a history blob that needed UTF-8 repair holds %q after translation, expected %q", r, p, g, wv),
		map[string]any{"kind": kind, "clean_twin": jsonOf(clean)})}
}

func TestNamespace(t *testing.T) {
	out := rec.Default()
	probe := fakes.NewProbe(1)
	tr := interceptor.NewNamespaceNameTranslator(probe, reqMap, respMap)
	roots := allRoots()
	evPaths := eventNamePaths()
	idx := 0
	sampled := 0
	for _, r := range roots {
		idx++
		name := "paths/" + r.String()
		if !rec.Want(idx, name) {
			continue
		}
		out.Begin(name, map[string]any{"root": string(r.md.FullName())})
		var viol []rec.Violation
		var classes []string
		counts := map[string]int64{}
		src := "remote-ns"
		if r.isResp {
			src = "local-ns"
		}
		// (A) every structural path to a namespace-name field, one at a time
		paths := gen.EnumeratePaths(r.md, gen.IsNamespaceNameField, 2, 14, 100000)
		// the second value is the head of a chain (b->c, c->d): a site translated twice ends up wrong
		chain := "ns-b"
		if r.isResp {
			chain = "ns-d"
		}
		for _, p := range paths {
			for _, val := range []string{src, chain} {
				msg := gen.New(r.md)
				gen.SetString(msg, p, val)
				counts["path_cases"]++
				viol = append(viol, checkNS(tr, r, msg, "path "+p.String()+" value "+val)...)
			}
			classes = append(classes, r.String()+":"+p.String())
		}
		// (B) every path to a history-event blob x every event-level path to a name, plus the
		// event between two plain events (the shortcut decides on whole lists)
		blobPaths := gen.EnumeratePaths(r.md, gen.IsEventBlobSite, 2, 14, 100000)
		// (B') every history event TYPE with a link that names a namespace, serialized: alone, and next to an event
		// of the same type without a link (the shortcut that skips "uninteresting" event types decides on whole
		// batches; a batch made only of such types must still have its links looked at)
		for bi, bp := range blobPaths {
			for ai, af := range gen.AttrFields {
				if !rec.Thorough() && (bi+ai)%3 != 0 {
					continue
				}
				mk := func(id int64, link bool) *historypb.HistoryEvent {
					e := &historypb.HistoryEvent{EventId: id}
					e.ProtoReflect().Set(af, protoreflect.ValueOfMessage(e.ProtoReflect().NewField(af).Message()))
					fixType(e)
					if link {
						e.Links = []*commonpb.Link{{Variant: &commonpb.Link_WorkflowEvent_{WorkflowEvent: &commonpb.Link_WorkflowEvent{Namespace: src, WorkflowId: "wf", RunId: "run"}}}}
					}
					return e
				}
				for variant, evs := range [][]*historypb.HistoryEvent{{mk(3, true)}, {mk(3, false), mk(4, true)}} {
					msg := gen.New(r.md)
					parent, f := gen.Descend(msg, bp)
					blob := gen.EncodeEvents(evs)
					if f.IsList() {
						parent.Mutable(f).List().Append(protoreflect.ValueOfMessage(blob.ProtoReflect()))
					} else {
						parent.Set(f, protoreflect.ValueOfMessage(blob.ProtoReflect()))
					}
					counts["blob_link_per_event_type_cases"]++
					viol = append(viol, checkNS(tr, r, msg, fmt.Sprintf("blob %s, batch of %d %s events, one with a workflow-event link", bp.String(), variant+1, af.Name()))...)
				}
			}
		}
		// (B'') an event carrying SEVERAL links of which only a later (or only the first) one names a namespace - a
		// workflow-event link without a namespace and a batch-job link stand in front of / behind it: serialized on
		// every blob path, and inline wherever the root holds history events directly
		multi := func(af protoreflect.FieldDescriptor, order int) *historypb.HistoryEvent {
			e := &historypb.HistoryEvent{EventId: 5}
			e.ProtoReflect().Set(af, protoreflect.ValueOfMessage(e.ProtoReflect().NewField(af).Message()))
			fixType(e)
			empty := &commonpb.Link{Variant: &commonpb.Link_WorkflowEvent_{WorkflowEvent: &commonpb.Link_WorkflowEvent{WorkflowId: "wf0", RunId: "run0"}}}
			job := &commonpb.Link{Variant: &commonpb.Link_BatchJob_{BatchJob: &commonpb.Link_BatchJob{JobId: "job"}}}
			named := &commonpb.Link{Variant: &commonpb.Link_WorkflowEvent_{WorkflowEvent: &commonpb.Link_WorkflowEvent{Namespace: src, WorkflowId: "wf", RunId: "run"}}}
			switch order {
			case 0:
				e.Links = []*commonpb.Link{empty, job, named}
			case 1:
				e.Links = []*commonpb.Link{named, job, empty}
			default:
				e.Links = []*commonpb.Link{job, empty, named, empty}
			}
			return e
		}
		inlinePaths := gen.EnumeratePaths(r.md, func(f protoreflect.FieldDescriptor) bool {
			return f.IsList() && f.Message() != nil && f.Message().FullName() == "temporal.api.history.v1.HistoryEvent"
		}, 2, 14, 100000)
		for ai, af := range gen.AttrFields {
			for order := 0; order < 3; order++ {
				for bi, bp := range blobPaths {
					if !rec.Thorough() && (bi+ai+order)%3 != 0 {
						continue
					}
					msg := gen.New(r.md)
					parent, f := gen.Descend(msg, bp)
					blob := gen.EncodeEvents([]*historypb.HistoryEvent{multi(af, order)})
					if f.IsList() {
						parent.Mutable(f).List().Append(protoreflect.ValueOfMessage(blob.ProtoReflect()))
					} else {
						parent.Set(f, protoreflect.ValueOfMessage(blob.ProtoReflect()))
					}
					counts["blob_multi_link_cases"]++
					viol = append(viol, checkNS(tr, r, msg, fmt.Sprintf("blob %s, one %s event with several links (order %d), one of them naming a namespace", bp.String(), af.Name(), order))...)
				}
				for _, ip := range inlinePaths {
					msg := gen.New(r.md)
					parent, f := gen.Descend(msg, ip)
					parent.Mutable(f).List().Append(protoreflect.ValueOfMessage(multi(af, order).ProtoReflect()))
					counts["inline_multi_link_cases"]++
					viol = append(viol, checkNS(tr, r, msg, fmt.Sprintf("inline %s, one %s event with several links (order %d), one of them naming a namespace", ip.String(), af.Name(), order))...)
				}
			}
		}
		for _, bp := range blobPaths {
			for ei, ep := range evPaths {
				ev := &historypb.HistoryEvent{EventId: 7}
				if ei%2 == 0 {
					gen.SetString(ev, ep, src)
				} else {
					gen.SetString(ev, ep, chain)
				}
				plain := func(id int64) *historypb.HistoryEvent {
					e := &historypb.HistoryEvent{EventId: id, Attributes: &historypb.HistoryEvent_TimerFiredEventAttributes{TimerFiredEventAttributes: &historypb.TimerFiredEventAttributes{TimerId: "t"}}}
					gen.SetString(e, gen.Path{}, "") // no-op; keeps event type consistent below
					return e
				}
				var evs []*historypb.HistoryEvent
				switch ei % 3 {
				case 0:
					evs = []*historypb.HistoryEvent{ev}
				case 1:
					evs = []*historypb.HistoryEvent{fixType(plain(1)), ev, fixType(plain(9))}
				default:
					evs = []*historypb.HistoryEvent{ev, fixType(plain(9))}
				}
				msg := gen.New(r.md)
				parent, f := gen.Descend(msg, bp)
				// both encodings Temporal's serializer reads: proto3 and (every fourth case) JSON
				blob := gen.EncodeEvents(evs)
				enc := "proto3"
				if (ei+len(bp.String()))%4 == 3 {
					blob, enc = gen.EncodeEventsJSON(evs), "json"
				}
				counts["blob_event_cases_"+enc]++
				if f.IsList() {
					parent.Mutable(f).List().Append(protoreflect.ValueOfMessage(blob.ProtoReflect()))
				} else {
					parent.Set(f, protoreflect.ValueOfMessage(blob.ProtoReflect()))
				}
				counts["blob_event_cases"]++
				classes = append(classes, r.String()+":"+bp.String()+"<"+ep.String()+">")
				viol = append(viol, checkNS(tr, r, msg, "blob "+bp.String()+" event "+ep.String())...)
				if ei%2 == 0 || rec.Thorough() { // the same batch next to an event whose failure message needs UTF-8 repair
					clean, dirty := dirtyTwin(evs, ei%4 == 0)
					cm, dm := gen.New(r.md), gen.New(r.md)
					putBlob(cm, bp, clean)
					putBlob(dm, bp, dirty)
					counts["repaired_blob_cases"]++
					viol = append(viol, checkNSDirty(tr, r, cm, dm, counts, "blob "+bp.String()+" event "+ep.String()+" next to an event with invalid UTF-8 in its failure message")...)
				}
			}
		}
		l := rec.Line{Case: name, Viol: dedupe(viol), Counts: counts, Classes: classes}
		if sampled < 2 && len(paths) > 2 {
			sampled++
			m := gen.New(r.md)
			gen.SetString(m, paths[len(paths)-1], src)
			l.Sample = map[string]any{"root": r.String(), "path": paths[len(paths)-1].String(), "message": jsonOf(m)}
		}
		out.End(l)
	}
	// (C) random fully populated messages
	n := 2500
	if rec.Thorough() {
		n = 20000000
	}
	for k := 0; k < n; k += 50 {
		idx++
		name := fmt.Sprintf("random/%d", k)
		if !rec.Want(idx, name) {
			continue
		}
		out.Begin(name, nil)
		rng := rand.New(rand.NewSource(rec.Mix(rec.Seed(), name)))
		var viol []rec.Violation
		counts := map[string]int64{}
		classes := map[string]bool{}
		for j := 0; j < 50; j++ {
			r := roots[rng.Intn(len(roots))]
			msg := gen.Populate(r.md, popOpts(rng, namePool, []string{"k1", "k2"}))
			sites := gen.NamespaceSites(msg)
			counts["random_messages"]++
			counts["random_name_sites"] += int64(len(sites))
			if len(sites) > 0 {
				classes[r.String()] = true
			}
			viol = append(viol, checkNS(tr, r, msg, "random")...)
		}
		var cl []string
		for c := range classes {
			cl = append(cl, "random:"+c)
		}
		out.End(rec.Line{Case: name, Viol: dedupe(viol), Counts: counts, Classes: cl})
	}
}

func fixType(e *historypb.HistoryEvent) *historypb.HistoryEvent {
	od := e.ProtoReflect().Descriptor().Oneofs().ByName("attributes")
	if fd := e.ProtoReflect().WhichOneof(od); fd != nil {
		e.EventType = gen.EventTypeForAttr[string(fd.Name())]
	}
	return e
}

func dedupe(v []rec.Violation) []rec.Violation {
	seen := map[string]bool{}
	var out []rec.Violation
	for _, x := range v {
		if !seen[x.Prop+x.Sig] {
			seen[x.Prop+x.Sig] = true
			out = append(out, x)
		}
	}
	return out
}
