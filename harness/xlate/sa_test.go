package xlate

import (
	"context"
	"fmt"
	"math/rand"
	"testing"

	commonpb "go.temporal.io/api/common/v1"
	historypb "go.temporal.io/api/history/v1"
	"google.golang.org/grpc"
	"google.golang.org/protobuf/proto"
	"google.golang.org/protobuf/reflect/protoreflect"

	"github.com/temporalio/s2s-proxy/interceptor"
	"verifharness/fakes"
	"verifharness/gen"
	"verifharness/rec"
)

var (
	saReq  = map[string]map[string]string{"nsid": {"RemoteA": "CustomA", "RemoteB": "CustomB", "Swap1": "Swap2"}}
	saResp = map[string]map[string]string{"nsid": {"CustomA": "RemoteA", "CustomB": "RemoteB", "Swap2": "Swap1"}}
	// unmapped keys never equal a mapping target of either direction
	saKeys = []string{"RemoteA", "RemoteB", "Swap1", "CustomA", "CustomB", "Swap2", "Unmapped1", "Unmapped2", "remotea", "RemoteA2"}
)

func isSAContainer(f protoreflect.FieldDescriptor) bool {
	if f.Name() != "search_attributes" {
		return false
	}
	if f.IsMap() {
		return f.MapKey().Kind() == protoreflect.StringKind && f.MapValue().Message() != nil && f.MapValue().Message().FullName() == "temporal.api.common.v1.Payload"
	}
	return f.Message() != nil && f.Message().FullName() == "temporal.api.common.v1.SearchAttributes"
}

// putSA stores a key set at the container ending path p.
func putSA(msg proto.Message, p gen.Path, keys []string) {
	parent, f := gen.Descend(msg, p)
	var mp protoreflect.Map
	if f.IsMap() {
		mp = parent.Mutable(f).Map()
	} else {
		sa := parent.Mutable(f).Message()
		mp = sa.Mutable(sa.Descriptor().Fields().ByName("indexed_fields")).Map()
	}
	for i, k := range keys {
		pl := &commonpb.Payload{Metadata: map[string][]byte{"encoding": []byte("json/plain"), "type": []byte("Keyword")}, Data: []byte(fmt.Sprintf("\"value-%d-of-%s\"", i, k))}
		mp.Set(protoreflect.ValueOfString(k).MapKey(), protoreflect.ValueOfMessage(pl.ProtoReflect()))
	}
	gen.SetString(msg, gen.Path{}, "")
}

func checkSA(tr interceptor.Translator, r root, msg proto.Message, keysReq map[string]string, kind string) []rec.Violation {
	return checkSAMaps(tr, r, msg, saReq["nsid"], saResp["nsid"], kind)
}

// one-to-one mappings whose local and remote key sets overlap: a chain and a swap
var (
	saChainReq  = map[string]map[string]string{"nsid": {"ChainA": "ChainB", "ChainB": "ChainC", "SwapX": "SwapY", "SwapY": "SwapX"}}
	saChainResp = map[string]map[string]string{"nsid": {"ChainB": "ChainA", "ChainC": "ChainB", "SwapY": "SwapX", "SwapX": "SwapY"}}
)

func checkSAMaps(tr interceptor.Translator, r root, msg proto.Message, mapReq, mapResp map[string]string, kind string) []rec.Violation {
	mapping := mapReq
	real := proto.Clone(msg)
	var err error
	if r.isResp {
		mapping = mapResp
		_, err = tr.TranslateResponse(real)
	} else {
		_, err = tr.TranslateRequest(real)
	}
	want := proto.Clone(msg)
	gen.TranslateSearchAttributes(want, mapping)
	if err != nil && (r.md.Name() == "AddSearchAttributesRequest" || r.md.Name() == "RemoveSearchAttributesRequest") {
		// their search_attributes fields are a type map / a name list, not containers in the property's
		// sense; the translator's "unhandled search attribute type" error on them is an observation
		return nil
	}
	if err != nil {
		return []rec.Violation{violation("C14", "sa-translate-error:"+r.String(), fmt.Sprintf("%s: search-attribute translator returned an error: %v", r, err), map[string]any{"kind": kind, "message": jsonOf(msg)})}
	}
	if equalModuloBlobEncoding(real, want) {
		return nil
	}
	p, g, w := firstDiff(sortedSites(gen.SASites(real)), sortedSites(gen.SASites(want)))
	if p == "" {
		return []rec.Violation{violation("C14", "sa-value-or-other-field-changed:"+r.String(), fmt.Sprintf("%s: keys are as expected but a value or another field changed", r), map[string]any{"kind": kind, "message": jsonOf(msg), "after": jsonOf(real)})}
	}
	return []rec.Violation{violation("C14", "sa-key-wrong:"+r.String()+":"+normPath(p), fmt.Sprintf("%s: search-attribute container %s has key %q, expected %q", r, p, g, w), map[string]any{"kind": kind, "message": jsonOf(msg)})}
}

// checkSADirty: dirty = clean with invalid UTF-8 patched into a failure message inside a history blob. Judged only
// when the translator succeeds and the repaired result has the same search-attribute containers as the clean twin
// (errors and structural loss on the repair path are C17's business): the keys must then be those of the oracle.
func checkSADirty(tr interceptor.Translator, r root, clean, dirty proto.Message, mapReq, mapResp map[string]string, counts map[string]int64, kind string) []rec.Violation {
	mapping := mapReq
	real := proto.Clone(dirty)
	var err error
	if r.isResp {
		mapping = mapResp
		_, err = tr.TranslateResponse(real)
	} else {
		_, err = tr.TranslateRequest(real)
	}
	if err != nil {
		counts["sa_repaired_blob_translator_error_not_judged"]++
		return nil
	}
	want := proto.Clone(clean)
	gen.TranslateSearchAttributes(want, mapping)
	got, w := gen.SASites(real), gen.SASites(want)
	if sitePaths(got) != sitePaths(w) {
		counts["sa_repaired_blob_shape_differs_not_judged"]++
		return nil
	}
	counts["sa_repaired_blob_judged"]++
	p, g, wv := firstDiff(sortedSites(got), sortedSites(w))
	if p == "" {
		return nil
	}
	return []rec.Violation{violation("C14", "sa-key-wrong-in-repaired-blob:"+r.String()+":"+normPath(p), fmt.Sprintf("%s: search-attribute container %s inside a history blob that needed UTF-8 repair has key %q, expected %q", r, p, g, wv), map[string]any{"kind": kind, "clean_twin": jsonOf(clean)})}
}

func TestSA(t *testing.T) {
	out := rec.Default()
	probe := fakes.NewProbe(1)
	tr := interceptor.NewSearchAttributeTranslator(probe, saReq, saResp)
	trChain := interceptor.NewSearchAttributeTranslator(probe, saChainReq, saChainResp)
	roots := allRoots()
	hd := (&historypb.HistoryEvent{}).ProtoReflect().Descriptor()
	evSA := gen.EnumeratePaths(hd, isSAContainer, 2, 10, 100000)
	idx := 0
	sampled := 0
	for _, r := range roots {
		admin := r.m.Service == gen.AdminServiceName
		idx++
		name := "sa-paths/" + r.String()
		if !rec.Want(idx, name) {
			continue
		}
		out.Begin(name, map[string]any{"root": string(r.md.FullName())})
		var viol []rec.Violation
		var classes []string
		counts := map[string]int64{}
		mixed := []string{"RemoteA", "Unmapped1", "Swap1", "CustomB", "Unmapped2"}
		if r.isResp {
			mixed = []string{"CustomA", "Unmapped1", "Swap2", "RemoteB", "Unmapped2"}
		}
		paths := gen.EnumeratePaths(r.md, isSAContainer, 2, 14, 100000)
		blobPaths := gen.EnumeratePaths(r.md, gen.IsEventBlobSite, 2, 14, 100000)
		if admin {
			for _, p := range paths {
				msg := gen.New(r.md)
				putSA(msg, p, mixed)
				counts["sa_path_cases"]++
				classes = append(classes, r.String()+":"+p.String())
				viol = append(viol, checkSA(tr, r, msg, nil, "path "+p.String())...)
				// overlapping one-to-one mapping (chain a->b, b->c and swap x<->y), all affected keys in one container
				cm := gen.New(r.md)
				ck := []string{"ChainA", "ChainB", "SwapX", "SwapY", "Unmapped1"}
				if r.isResp {
					ck = []string{"ChainB", "ChainC", "SwapX", "SwapY", "Unmapped1"}
				}
				putSA(cm, p, ck)
				counts["sa_chain_swap_cases"]++
				viol = append(viol, checkSAMaps(trChain, r, cm, saChainReq["nsid"], saChainResp["nsid"], "chain/swap mapping, path "+p.String())...)
			}
			for _, bp := range blobPaths {
				for ei, ep := range evSA {
					ev := &historypb.HistoryEvent{EventId: 3}
					putSA(ev, ep, mixed)
					msg := gen.New(r.md)
					parent, f := gen.Descend(msg, bp)
					blob := gen.EncodeEvents([]*historypb.HistoryEvent{ev})
					if (ei+len(bp.String()))%3 == 2 {
						blob = gen.EncodeEventsJSON([]*historypb.HistoryEvent{ev})
						counts["sa_blob_cases_json"]++
					}
					if f.IsList() {
						parent.Mutable(f).List().Append(protoreflect.ValueOfMessage(blob.ProtoReflect()))
					} else {
						parent.Set(f, protoreflect.ValueOfMessage(blob.ProtoReflect()))
					}
					counts["sa_blob_cases"]++
					classes = append(classes, r.String()+":"+bp.String()+"<"+ep.String()+">")
					viol = append(viol, checkSA(tr, r, msg, nil, "blob "+bp.String()+" event "+ep.String())...)
					if ei%2 == 0 || rec.Thorough() { // the same batch next to an event whose failure message needs UTF-8 repair
						clean, dirty := dirtyTwin([]*historypb.HistoryEvent{ev}, ei%4 == 0)
						cm, dm := gen.New(r.md), gen.New(r.md)
						putBlob(cm, bp, clean)
						putBlob(dm, bp, dirty)
						counts["sa_repaired_blob_cases"]++
						viol = append(viol, checkSADirty(tr, r, cm, dm, saReq["nsid"], saResp["nsid"], counts, "blob "+bp.String()+" event "+ep.String()+" next to an event with invalid UTF-8 in its failure message")...)
					}
					if ei%2 == 0 { // the same with the overlapping mapping, keys inside the serialized event
						cev := &historypb.HistoryEvent{EventId: 3}
						ck := []string{"ChainA", "ChainB", "SwapX", "SwapY", "Unmapped1"}
						if r.isResp {
							ck = []string{"ChainB", "ChainC", "SwapX", "SwapY", "Unmapped1"}
						}
						putSA(cev, ep, ck)
						cmsg := gen.New(r.md)
						cparent, cf := gen.Descend(cmsg, bp)
						cblob := gen.EncodeEvents([]*historypb.HistoryEvent{cev})
						if cf.IsList() {
							cparent.Mutable(cf).List().Append(protoreflect.ValueOfMessage(cblob.ProtoReflect()))
						} else {
							cparent.Set(cf, protoreflect.ValueOfMessage(cblob.ProtoReflect()))
						}
						counts["sa_chain_swap_cases"]++
						viol = append(viol, checkSAMaps(trChain, r, cmsg, saChainReq["nsid"], saChainResp["nsid"], "chain/swap mapping, blob "+bp.String()+" event "+ep.String())...)
					}
				}
			}
		} else {
			// exclusion clause: workflow-service traffic carries aliases and is left alone; decided
			// exactly as the interceptor decides (MatchMethod, then the translator)
			tin := interceptor.NewTranslationInterceptor(probe, []interceptor.Translator{tr})
			for _, p := range paths {
				msg := gen.New(r.md)
				putSA(msg, p, mixed)
				before := proto.Clone(msg)
				var got proto.Message
				if r.isResp {
					resp, _ := tin.Intercept(context.Background(), gen.New(r.m.In), &grpc.UnaryServerInfo{FullMethod: r.m.FullName}, func(ctx context.Context, req any) (any, error) { return msg, nil })
					got, _ = resp.(proto.Message)
				} else {
					_, _ = tin.Intercept(context.Background(), msg, &grpc.UnaryServerInfo{FullMethod: r.m.FullName}, func(ctx context.Context, req any) (any, error) {
						got = req.(proto.Message)
						return gen.New(r.m.Out), nil
					})
				}
				counts["workflow_service_exclusion_cases"]++
				classes = append(classes, "excl:"+r.String()+":"+p.String())
				if got == nil || !proto.Equal(got, before) {
					viol = append(viol, violation("C14", "workflow-service-sa-translated:"+r.String(), fmt.Sprintf("%s: workflow-service message with mapped search-attribute keys at %s was changed by the search-attribute translator", r, p), jsonOf(before)))
				}
			}
		}
		l := rec.Line{Case: name, Viol: dedupe(viol), Counts: counts, Classes: classes}
		if sampled < 2 && admin && len(paths) > 0 {
			sampled++
			m := gen.New(r.md)
			putSA(m, paths[0], mixed)
			l.Sample = map[string]any{"root": r.String(), "path": paths[0].String(), "message": jsonOf(m)}
		}
		out.End(l)
	}
	n := 2000
	if rec.Thorough() {
		n = 2000000
	}
	var adminRoots []root
	for _, r := range roots {
		if r.m.Service == gen.AdminServiceName && (len(gen.EnumeratePaths(r.md, isSAContainer, 2, 14, 10)) > 0 || len(gen.EnumeratePaths(r.md, gen.IsEventBlobSite, 2, 14, 10)) > 0) {
			adminRoots = append(adminRoots, r)
		}
	}
	for k := 0; k < n; k += 50 {
		idx++
		name := fmt.Sprintf("sa-random/%d", k)
		if !rec.Want(idx, name) {
			continue
		}
		out.Begin(name, nil)
		rng := rand.New(rand.NewSource(rec.Mix(rec.Seed(), name)))
		var viol []rec.Violation
		counts := map[string]int64{}
		for j := 0; j < 50; j++ {
			r := adminRoots[rng.Intn(len(adminRoots))]
			// key pool per direction: unmapped keys must not collide with that direction's targets
			keys := []string{"RemoteA", "RemoteB", "Swap1", "Unmapped1", "Unmapped2", "remotea"}
			if r.isResp {
				keys = []string{"CustomA", "CustomB", "Swap2", "Unmapped1", "Unmapped2", "customa"}
			}
			po := popOpts(rng, []string{"ns"}, keys)
			po.MaxDepth, po.FieldProb = 9, 0.5
			msg := gen.Populate(r.md, po)
			counts["sa_random_messages"]++
			counts["sa_random_keys"] += int64(len(gen.SASites(msg)))
			viol = append(viol, checkSA(tr, r, msg, nil, "random")...)
		}
		out.End(rec.Line{Case: name, Viol: dedupe(viol), Counts: counts, Class: name})
	}
}
