package gen

import (
	commonpb "go.temporal.io/api/common/v1"
	historypb "go.temporal.io/api/history/v1"
	"google.golang.org/protobuf/proto"
	"google.golang.org/protobuf/reflect/protoreflect"
)

// IsNamespaceNameField: the descriptor-level definition of "a field that carries a namespace
// name". Derived by enumerating all 180 string fields whose name contains "namespace" in the
// closure of both services: 140 are called `namespace`, one each `workflow_namespace` and
// `parent_workflow_namespace` (names); the other 38 are ids (`*_id`, `*_ids`). Plus
// NamespaceInfo.name.
func IsNamespaceNameField(f protoreflect.FieldDescriptor) bool {
	if f.Kind() != protoreflect.StringKind || f.IsMap() {
		return false
	}
	switch f.Name() {
	case "namespace", "workflow_namespace", "parent_workflow_namespace":
		return true
	case "name":
		return f.ContainingMessage().FullName() == "temporal.api.namespace.v1.NamespaceInfo"
	}
	return false
}

// Site is one occurrence of a translatable string in a populated message.
type Site struct {
	Path  string
	Value string
}

type walkOpts struct {
	onName func(path string, get func() string, set func(string))
	onSA   func(path string, m protoreflect.Map) // map<string,Payload> holding indexed fields
	blobs  bool                                  // descend into history-event blobs
}

func walk(m protoreflect.Message, prefix string, o *walkOpts) {
	m.Range(func(f protoreflect.FieldDescriptor, v protoreflect.Value) bool {
		p := prefix + "." + string(f.Name())
		switch {
		case f.IsMap():
			if o.onSA != nil && f.Name() == "search_attributes" && f.MapKey().Kind() == protoreflect.StringKind && f.MapValue().Message() != nil &&
				f.MapValue().Message().FullName() == "temporal.api.common.v1.Payload" {
				o.onSA(p, v.Map())
			}
			if f.MapValue().Message() != nil {
				v.Map().Range(func(k protoreflect.MapKey, mv protoreflect.Value) bool {
					walk(mv.Message(), p+"{"+k.String()+"}", o)
					return true
				})
			}
		case f.IsList():
			l := v.List()
			if f.Kind() == protoreflect.StringKind && IsNamespaceNameField(f) && o.onName != nil {
				for i := 0; i < l.Len(); i++ {
					i := i
					o.onName(p+"[]", func() string { return l.Get(i).String() }, func(s string) { l.Set(i, protoreflect.ValueOfString(s)) })
				}
			}
			if f.Message() != nil {
				for i := 0; i < l.Len(); i++ {
					if o.blobs && IsEventBlobSite(f) {
						walkBlob(l.Get(i).Message(), p+"[]", o)
						continue
					}
					walk(l.Get(i).Message(), p+"[]", o)
				}
			}
		case f.Message() != nil:
			if o.blobs && IsEventBlobSite(f) {
				walkBlob(v.Message(), p, o)
				return true
			}
			if o.onSA != nil && f.Name() == "search_attributes" && f.Message().FullName() == "temporal.api.common.v1.SearchAttributes" {
				sa := v.Message()
				fd := sa.Descriptor().Fields().ByName("indexed_fields")
				if sa.Has(fd) {
					o.onSA(p+".indexed_fields", sa.Mutable(fd).Map())
				}
			}
			walk(v.Message(), p, o)
		case f.Kind() == protoreflect.StringKind:
			if IsNamespaceNameField(f) && o.onName != nil {
				o.onName(p, func() string { return m.Get(f).String() }, func(s string) { m.Set(f, protoreflect.ValueOfString(s)) })
			}
		}
		return true
	})
}

// walkBlob decodes a history-event blob, walks the events, and re-encodes it if a callback
// changed something (detected by comparing the events before and after).
func walkBlob(blobMsg protoreflect.Message, prefix string, o *walkOpts) {
	blob, ok := blobMsg.Interface().(*commonpb.DataBlob)
	if !ok || len(blob.GetData()) == 0 {
		return
	}
	events, ok := DecodeEvents(blob)
	if !ok {
		return
	}
	before := &historypb.History{Events: events}
	snapshot := proto.Clone(before).(*historypb.History)
	for i, e := range events {
		walk(e.ProtoReflect(), prefix+".<events>["+itoa(i)+"]", o)
	}
	if !proto.Equal(snapshot, before) {
		nb := EncodeEvents(events) // (a translated batch is written back as proto3, whatever it came in as)
		blob.Data, blob.EncodingType = nb.Data, nb.EncodingType
	}
}

func itoa(i int) string {
	if i < 10 {
		return string(rune('0' + i))
	}
	return itoa(i/10) + string(rune('0'+i%10))
}

// NamespaceSites lists every namespace-name occurrence (including inside event blobs).
func NamespaceSites(m proto.Message) []Site {
	var out []Site
	walk(m.ProtoReflect(), "", &walkOpts{blobs: true, onName: func(p string, get func() string, _ func(string)) { out = append(out, Site{p, get()}) }})
	return out
}

// TranslateNamespaces applies mapping to every namespace-name occurrence, in place.
func TranslateNamespaces(m proto.Message, mapping map[string]string) (sites, changed int) {
	walk(m.ProtoReflect(), "", &walkOpts{blobs: true, onName: func(p string, get func() string, set func(string)) {
		sites++
		if nv, ok := mapping[get()]; ok {
			if nv != get() {
				changed++
			}
			set(nv)
		}
	}})
	return
}

// SASites lists the keys of every search-attribute container.
func SASites(m proto.Message) []Site {
	var out []Site
	walk(m.ProtoReflect(), "", &walkOpts{blobs: true, onSA: func(p string, mp protoreflect.Map) {
		mp.Range(func(k protoreflect.MapKey, _ protoreflect.Value) bool {
			out = append(out, Site{p, k.String()})
			return true
		})
	}})
	return out
}

// TranslateSearchAttributes renames mapped keys in every search-attribute container, in place;
// values are moved untouched.
func TranslateSearchAttributes(m proto.Message, mapping map[string]string) (containers, renamed int) {
	walk(m.ProtoReflect(), "", &walkOpts{blobs: true, onSA: func(p string, mp protoreflect.Map) {
		containers++
		type kv struct {
			k string
			v protoreflect.Value
		}
		var moves []kv
		mp.Range(func(k protoreflect.MapKey, v protoreflect.Value) bool {
			if nk, ok := mapping[k.String()]; ok && nk != k.String() {
				moves = append(moves, kv{k.String(), v})
			}
			return true
		})
		for _, mv := range moves {
			mp.Clear(protoreflect.ValueOfString(mv.k).MapKey())
		}
		for _, mv := range moves {
			mp.Set(protoreflect.ValueOfString(mapping[mv.k]).MapKey(), mv.v)
			renamed++
		}
	}})
	return
}
