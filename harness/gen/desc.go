// Package gen: descriptor-driven generators and oracles shared by the xlate / utf8 / wire
// engines. Nothing here calls into the repository's translation code.
package gen

import (
	"fmt"
	"sort"
	"strings"

	"google.golang.org/protobuf/reflect/protoreflect"
	"google.golang.org/protobuf/reflect/protoregistry"

	// link the generated packages so that the global registry knows both services
	_ "go.temporal.io/api/workflowservice/v1"
	_ "go.temporal.io/server/api/adminservice/v1"
)

const (
	WorkflowServiceName = "temporal.api.workflowservice.v1.WorkflowService"
	AdminServiceName    = "temporal.server.api.adminservice.v1.AdminService"
)

type Method struct {
	Service                          string
	Name                             string
	FullName                         string // /pkg.Service/Method
	In, Out                          protoreflect.MessageDescriptor
	ClientStreaming, ServerStreaming bool
}

func Methods(service string) []Method {
	d, err := protoregistry.GlobalFiles.FindDescriptorByName(protoreflect.FullName(service))
	if err != nil {
		panic(err)
	}
	sd := d.(protoreflect.ServiceDescriptor)
	var out []Method
	for i := 0; i < sd.Methods().Len(); i++ {
		m := sd.Methods().Get(i)
		out = append(out, Method{Service: service, Name: string(m.Name()), FullName: "/" + service + "/" + string(m.Name()), In: m.Input(), Out: m.Output(),
			ClientStreaming: m.IsStreamingClient(), ServerStreaming: m.IsStreamingServer()})
	}
	sort.Slice(out, func(i, j int) bool { return out[i].Name < out[j].Name })
	return out
}

func AllMethods() []Method { return append(Methods(WorkflowServiceName), Methods(AdminServiceName)...) }

// Step is one hop of a structural path.
type Step struct {
	Field protoreflect.FieldDescriptor
}

type Path []Step

func (p Path) String() string {
	var sb strings.Builder
	for i, s := range p {
		if i > 0 {
			sb.WriteByte('.')
		}
		sb.WriteString(string(s.Field.Name()))
		switch {
		case s.Field.IsMap():
			sb.WriteString("{}")
		case s.Field.IsList():
			sb.WriteString("[]")
		}
	}
	return sb.String()
}

// Closure returns every message descriptor reachable from the roots.
func Closure(roots ...protoreflect.MessageDescriptor) map[protoreflect.FullName]protoreflect.MessageDescriptor {
	seen := map[protoreflect.FullName]protoreflect.MessageDescriptor{}
	var walk func(md protoreflect.MessageDescriptor)
	walk = func(md protoreflect.MessageDescriptor) {
		if _, ok := seen[md.FullName()]; ok {
			return
		}
		seen[md.FullName()] = md
		for i := 0; i < md.Fields().Len(); i++ {
			f := md.Fields().Get(i)
			if f.IsMap() {
				if v := f.MapValue(); v.Message() != nil {
					walk(v.Message())
				}
				continue
			}
			if f.Message() != nil {
				walk(f.Message())
			}
		}
	}
	for _, r := range roots {
		walk(r)
	}
	return seen
}

// EnumeratePaths lists structural paths from root to fields accepted by terminal. Each message
// type occurs at most maxRepeat times on one path; stop(md) prunes descent below a message type.
func EnumeratePaths(root protoreflect.MessageDescriptor, terminal func(protoreflect.FieldDescriptor) bool, maxRepeat, maxDepth int, limit int) []Path {
	var out []Path
	count := map[protoreflect.FullName]int{}
	var cur Path
	var walk func(md protoreflect.MessageDescriptor)
	walk = func(md protoreflect.MessageDescriptor) {
		if len(out) >= limit || len(cur) >= maxDepth || count[md.FullName()] >= maxRepeat {
			return
		}
		count[md.FullName()]++
		defer func() { count[md.FullName()]-- }()
		for i := 0; i < md.Fields().Len(); i++ {
			f := md.Fields().Get(i)
			cur = append(cur, Step{f})
			if terminal(f) {
				out = append(out, append(Path{}, cur...))
			}
			var next protoreflect.MessageDescriptor
			if f.IsMap() {
				next = f.MapValue().Message()
			} else {
				next = f.Message()
			}
			if next != nil {
				walk(next)
			}
			cur = cur[:len(cur)-1]
		}
	}
	walk(root)
	return out
}

// DescribeField: "pkg.Message.field".
func DescribeField(f protoreflect.FieldDescriptor) string {
	return fmt.Sprintf("%s.%s", f.ContainingMessage().FullName(), f.Name())
}
