package gen

import (
	"fmt"
	"math/rand"
	"reflect"
	"sort"
	"strings"
	"time"

	gogoproto "github.com/gogo/protobuf/proto"

	failure122 "github.com/temporalio/s2s-proxy/proto/1_22/api/failure/v1"
	// the legacy (Temporal 1.22, gogo) packages register their types on import
	_ "github.com/temporalio/s2s-proxy/proto/1_22/api/workflowservice/v1"
	_ "github.com/temporalio/s2s-proxy/proto/1_22/server/api/adminservice/v1"
)

var FailureType = reflect.TypeOf(failure122.Failure{})

// LegacyType returns the legacy Go struct type registered under a protobuf full name.
func LegacyType(fullName string) (reflect.Type, bool) {
	t := gogoproto.MessageType(fullName)
	if t == nil {
		return nil, false
	}
	return t.Elem(), true
}

// LStep: one hop in a legacy struct graph.
type LStep struct {
	Field   int          // field index in the current struct
	Name    string       // Go field name
	Wrapper reflect.Type // oneof: the wrapper struct type chosen (its single field holds the value)
	Coll    string       // "", "slice", "map"
}

type LPath []LStep

func (p LPath) String() string {
	var sb strings.Builder
	for i, s := range p {
		if i > 0 {
			sb.WriteByte('.')
		}
		sb.WriteString(s.Name)
		if s.Wrapper != nil {
			sb.WriteString("<" + s.Wrapper.Name() + ">")
		}
		switch s.Coll {
		case "slice":
			sb.WriteString("[]")
		case "map":
			sb.WriteString("{}")
		}
	}
	return sb.String()
}

func oneofWrappers(t reflect.Type) []reflect.Type {
	m, ok := reflect.PtrTo(t).MethodByName("XXX_OneofWrappers")
	if !ok {
		return nil
	}
	out := m.Func.Call([]reflect.Value{reflect.Zero(reflect.PtrTo(t))})
	var res []reflect.Type
	for _, w := range out[0].Interface().([]interface{}) {
		res = append(res, reflect.TypeOf(w).Elem())
	}
	return res
}

// structOf: the struct type a field type leads to (through pointer / slice / map value), and how.
func structOf(ft reflect.Type) (reflect.Type, string) {
	coll := ""
	switch ft.Kind() {
	case reflect.Slice:
		if ft.Elem().Kind() == reflect.Uint8 {
			return nil, ""
		}
		coll, ft = "slice", ft.Elem()
	case reflect.Map:
		coll, ft = "map", ft.Elem()
	}
	if ft.Kind() == reflect.Ptr {
		ft = ft.Elem()
	}
	if ft.Kind() == reflect.Struct && ft != reflect.TypeOf(time.Time{}) {
		return ft, coll
	}
	return nil, ""
}

// LegacyFailurePaths enumerates structural paths from struct type t to a Failure; each struct
// type at most maxRepeat times per path. The path ends AT the Failure (cause chains are added
// by the caller).
func LegacyFailurePaths(t reflect.Type, maxRepeat, maxDepth int) []LPath {
	var out []LPath
	count := map[reflect.Type]int{}
	var cur LPath
	var walk func(st reflect.Type)
	walk = func(st reflect.Type) {
		if st == FailureType {
			out = append(out, append(LPath{}, cur...))
			return
		}
		if len(cur) >= maxDepth || count[st] >= maxRepeat {
			return
		}
		count[st]++
		defer func() { count[st]-- }()
		wrappers := oneofWrappers(st)
		for i := 0; i < st.NumField(); i++ {
			f := st.Field(i)
			if strings.HasPrefix(f.Name, "XXX_") || !f.IsExported() {
				continue
			}
			if f.Type.Kind() == reflect.Interface {
				if _, ok := f.Tag.Lookup("protobuf_oneof"); !ok {
					continue
				}
				for _, w := range wrappers {
					if !reflect.PtrTo(w).Implements(f.Type) {
						continue
					}
					inner, _ := structOf(w.Field(0).Type)
					if inner == nil {
						continue
					}
					cur = append(cur, LStep{Field: i, Name: f.Name, Wrapper: w})
					walk(inner)
					cur = cur[:len(cur)-1]
				}
				continue
			}
			inner, coll := structOf(f.Type)
			if inner == nil {
				continue
			}
			cur = append(cur, LStep{Field: i, Name: f.Name, Coll: coll})
			walk(inner)
			cur = cur[:len(cur)-1]
		}
	}
	walk(t)
	return out
}

func newMapKey(kt reflect.Type, i int) reflect.Value {
	v := reflect.New(kt).Elem()
	switch kt.Kind() {
	case reflect.String:
		v.SetString(fmt.Sprintf("k%d", i))
	case reflect.Int32, reflect.Int64, reflect.Int:
		v.SetInt(int64(i + 1))
	case reflect.Uint32, reflect.Uint64:
		v.SetUint(uint64(i + 1))
	case reflect.Bool:
		v.SetBool(i%2 == 0)
	}
	return v
}

// LegacyDescend materialises the path inside root (a pointer to a legacy struct) and returns the
// *Failure at its end.
func LegacyDescend(root reflect.Value, p LPath) *failure122.Failure {
	cur := root.Elem() // struct
	for _, st := range p {
		f := cur.Field(st.Field)
		var target reflect.Value // the settable slot holding a *Struct / Struct
		if st.Wrapper != nil {
			w := reflect.New(st.Wrapper)
			if f.IsNil() || f.Elem().Type() != w.Type() {
				f.Set(w)
			} else {
				w = f.Elem()
			}
			target = w.Elem().Field(0)
		} else {
			target = f
		}
		switch st.Coll {
		case "slice":
			if target.Len() == 0 {
				target.Set(reflect.Append(target, reflect.Zero(target.Type().Elem())))
			}
			target = target.Index(0)
		case "map":
			if target.IsNil() {
				target.Set(reflect.MakeMap(target.Type()))
			}
			k := newMapKey(target.Type().Key(), 0)
			ev := target.MapIndex(k)
			if !ev.IsValid() || ev.Kind() == reflect.Ptr && ev.IsNil() {
				ev = reflect.New(target.Type().Elem()).Elem()
				if ev.Kind() == reflect.Ptr {
					ev.Set(reflect.New(ev.Type().Elem()))
				}
				target.SetMapIndex(k, ev)
			}
			// map values are not addressable: only pointer values can be descended into
			if ev.Kind() != reflect.Ptr {
				panic("LegacyDescend: map of non-pointer struct")
			}
			cur = ev.Elem()
			continue
		}
		if target.Kind() == reflect.Ptr {
			if target.IsNil() {
				target.Set(reflect.New(target.Type().Elem()))
			}
			cur = target.Elem()
		} else {
			cur = target
		}
	}
	return cur.Addr().Interface().(*failure122.Failure)
}

// PopulateLegacy fills a legacy struct (pointer value) with random valid content.
func PopulateLegacy(v reflect.Value, rng *rand.Rand, depth, maxDepth int, prob float64) {
	st := v.Elem()
	t := st.Type()
	wrappers := oneofWrappers(t)
	for i := 0; i < t.NumField(); i++ {
		f := t.Field(i)
		if strings.HasPrefix(f.Name, "XXX_") || !f.IsExported() {
			continue
		}
		if rng.Float64() >= prob {
			continue
		}
		fv := st.Field(i)
		if f.Type.Kind() == reflect.Interface {
			if _, ok := f.Tag.Lookup("protobuf_oneof"); !ok {
				continue
			}
			var cands []reflect.Type
			for _, w := range wrappers {
				if reflect.PtrTo(w).Implements(f.Type) {
					cands = append(cands, w)
				}
			}
			if len(cands) == 0 {
				continue
			}
			w := reflect.New(cands[rng.Intn(len(cands))])
			setLegacyValue(w.Elem().Field(0), rng, depth, maxDepth, prob)
			if inner := w.Elem().Field(0); inner.Kind() == reflect.Ptr && inner.IsNil() {
				continue // depth bound: an empty oneof wrapper with nil payload does not marshal
			}
			fv.Set(w)
			continue
		}
		setLegacyValue(fv, rng, depth, maxDepth, prob)
	}
}

var (
	timeT     = reflect.TypeOf(time.Time{})
	durationT = reflect.TypeOf(time.Duration(0))
)

func setLegacyValue(fv reflect.Value, rng *rand.Rand, depth, maxDepth int, prob float64) {
	switch fv.Kind() {
	case reflect.String:
		fv.SetString(fmt.Sprintf("s%d", rng.Intn(1000)))
	case reflect.Bool:
		fv.SetBool(rng.Intn(2) == 0)
	case reflect.Int32, reflect.Int64, reflect.Int:
		if fv.Type() == durationT {
			fv.SetInt(int64(rng.Intn(1000)) * int64(time.Second))
		} else if fv.Type().PkgPath() != "" && fv.Kind() == reflect.Int32 { // enum
			fv.SetInt(int64(rng.Intn(3)))
		} else {
			fv.SetInt(int64(rng.Intn(100000)))
		}
	case reflect.Uint32, reflect.Uint64:
		fv.SetUint(uint64(rng.Intn(100000)))
	case reflect.Float32, reflect.Float64:
		fv.SetFloat(float64(rng.Intn(100)) / 4)
	case reflect.Slice:
		if fv.Type().Elem().Kind() == reflect.Uint8 {
			b := make([]byte, rng.Intn(6))
			rng.Read(b)
			fv.SetBytes(b)
			return
		}
		n := 1 + rng.Intn(2)
		s := reflect.MakeSlice(fv.Type(), 0, n)
		for k := 0; k < n; k++ {
			e := reflect.New(fv.Type().Elem()).Elem()
			setLegacyValue(e, rng, depth+1, maxDepth, prob)
			if e.Kind() == reflect.Ptr && e.IsNil() {
				continue // a nil element in a repeated message field does not marshal
			}
			s = reflect.Append(s, e)
		}
		if s.Len() > 0 {
			fv.Set(s)
		}
	case reflect.Map:
		m := reflect.MakeMap(fv.Type())
		n := 1 + rng.Intn(2)
		for k := 0; k < n; k++ {
			e := reflect.New(fv.Type().Elem()).Elem()
			setLegacyValue(e, rng, depth+1, maxDepth, prob)
			if e.Kind() == reflect.Ptr && e.IsNil() {
				continue
			}
			m.SetMapIndex(newMapKey(fv.Type().Key(), rng.Intn(5)), e)
		}
		if m.Len() > 0 {
			fv.Set(m)
		}
	case reflect.Ptr:
		et := fv.Type().Elem()
		switch {
		case et == timeT:
			tm := time.Unix(1700000000+int64(rng.Intn(100000)), 0).UTC()
			fv.Set(reflect.ValueOf(&tm))
		case et == durationT:
			d := time.Duration(rng.Intn(1000)) * time.Second
			fv.Set(reflect.ValueOf(&d))
		case et.Kind() == reflect.Struct:
			if depth >= maxDepth {
				return
			}
			n := reflect.New(et)
			PopulateLegacy(n, rng, depth+1, maxDepth, prob)
			fv.Set(n)
		}
	case reflect.Struct:
		if fv.Type() == timeT {
			fv.Set(reflect.ValueOf(time.Unix(1700000000+int64(rng.Intn(100000)), 0).UTC()))
			return
		}
		if depth < maxDepth {
			PopulateLegacy(fv.Addr(), rng, depth+1, maxDepth, prob)
		}
	}
}

// LegacyFailures returns every *Failure reachable in a populated legacy value (not following causes).
func LegacyFailures(v reflect.Value, out *[]*failure122.Failure, seen map[uintptr]bool) {
	switch v.Kind() {
	case reflect.Ptr:
		if v.IsNil() {
			return
		}
		if v.Type().Elem() == FailureType {
			*out = append(*out, v.Interface().(*failure122.Failure))
			return
		}
		if v.Type().Elem().Kind() == reflect.Struct {
			if seen[v.Pointer()] {
				return
			}
			seen[v.Pointer()] = true
			LegacyFailures(v.Elem(), out, seen)
		}
	case reflect.Interface:
		if !v.IsNil() {
			LegacyFailures(v.Elem(), out, seen)
		}
	case reflect.Struct:
		if v.Type() == timeT {
			return
		}
		for i := 0; i < v.NumField(); i++ {
			if v.Type().Field(i).IsExported() && !strings.HasPrefix(v.Type().Field(i).Name, "XXX_") {
				LegacyFailures(v.Field(i), out, seen)
			}
		}
	case reflect.Slice:
		if v.Type().Elem().Kind() == reflect.Uint8 {
			return
		}
		for i := 0; i < v.Len(); i++ {
			LegacyFailures(v.Index(i), out, seen)
		}
	case reflect.Map:
		// in key order: callers walk two structurally equal messages side by side and pair the results up
		for _, k := range sortedMapKeys(v) {
			LegacyFailures(v.MapIndex(k), out, seen)
		}
	}
}

func sortedMapKeys(v reflect.Value) []reflect.Value {
	keys := v.MapKeys()
	sort.Slice(keys, func(i, j int) bool { return fmt.Sprint(keys[i].Interface()) < fmt.Sprint(keys[j].Interface()) })
	return keys
}

// LegacyStrings returns pointers (via setter closures) to every string field reachable that is not
// inside a Failure's message.
func LegacyStringSetters(v reflect.Value, out *[]reflect.Value, seen map[uintptr]bool) {
	switch v.Kind() {
	case reflect.Ptr:
		if v.IsNil() {
			return
		}
		if v.Type().Elem().Kind() == reflect.Struct {
			if seen[v.Pointer()] {
				return
			}
			seen[v.Pointer()] = true
			LegacyStringSetters(v.Elem(), out, seen)
		}
	case reflect.Interface:
		if !v.IsNil() {
			LegacyStringSetters(v.Elem(), out, seen)
		}
	case reflect.Struct:
		if v.Type() == timeT {
			return
		}
		for i := 0; i < v.NumField(); i++ {
			ft := v.Type().Field(i)
			if !ft.IsExported() || strings.HasPrefix(ft.Name, "XXX_") {
				continue
			}
			if ft.Type.Kind() == reflect.String && v.Field(i).CanSet() && v.Field(i).String() != "" {
				if v.Type() == FailureType && ft.Name == "Message" {
					continue
				}
				*out = append(*out, v.Field(i))
				continue
			}
			LegacyStringSetters(v.Field(i), out, seen)
		}
	case reflect.Slice:
		if v.Type().Elem().Kind() == reflect.Uint8 {
			return
		}
		for i := 0; i < v.Len(); i++ {
			LegacyStringSetters(v.Index(i), out, seen)
		}
	}
}
