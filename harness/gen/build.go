package gen

import (
	"fmt"
	"go.temporal.io/server/common/codec"
	"math/rand"
	"strings"

	commonpb "go.temporal.io/api/common/v1"
	enumspb "go.temporal.io/api/enums/v1"
	historypb "go.temporal.io/api/history/v1"
	"google.golang.org/protobuf/proto"
	"google.golang.org/protobuf/reflect/protoreflect"
	"google.golang.org/protobuf/reflect/protoregistry"
)

// New returns an empty concrete (generated-type) message for a descriptor.
func New(md protoreflect.MessageDescriptor) proto.Message {
	mt, err := protoregistry.GlobalTypes.FindMessageByName(md.FullName())
	if err != nil {
		panic(fmt.Sprintf("no Go type for %s: %v", md.FullName(), err))
	}
	return mt.New().Interface()
}

func mapKey(f protoreflect.FieldDescriptor, i int) protoreflect.MapKey {
	switch f.MapKey().Kind() {
	case protoreflect.StringKind:
		return protoreflect.ValueOfString(fmt.Sprintf("k%d", i)).MapKey()
	case protoreflect.BoolKind:
		return protoreflect.ValueOfBool(i%2 == 0).MapKey()
	case protoreflect.Int32Kind, protoreflect.Sint32Kind, protoreflect.Sfixed32Kind:
		return protoreflect.ValueOfInt32(int32(i + 1)).MapKey()
	case protoreflect.Int64Kind, protoreflect.Sint64Kind, protoreflect.Sfixed64Kind:
		return protoreflect.ValueOfInt64(int64(i + 1)).MapKey()
	case protoreflect.Uint32Kind, protoreflect.Fixed32Kind:
		return protoreflect.ValueOfUint32(uint32(i + 1)).MapKey()
	default:
		return protoreflect.ValueOfUint64(uint64(i + 1)).MapKey()
	}
}

// Descend returns the (mutable) message reached by following path[:len-1] from m, creating
// one element in every list/map on the way, and the terminal field descriptor.
func Descend(m proto.Message, p Path) (protoreflect.Message, protoreflect.FieldDescriptor) {
	cur := m.ProtoReflect()
	for i, st := range p {
		f := st.Field
		if i == len(p)-1 {
			return cur, f
		}
		switch {
		case f.IsMap():
			mp := cur.Mutable(f).Map()
			k := mapKey(f, 0)
			if !mp.Has(k) {
				mp.Set(k, mp.NewValue())
			}
			cur = mp.Mutable(k).Message()
		case f.IsList():
			l := cur.Mutable(f).List()
			if l.Len() == 0 {
				l.Append(l.NewElement())
			}
			cur = l.Get(0).Message()
		default:
			cur = cur.Mutable(f).Message()
		}
	}
	return cur, nil
}

// SetString sets the string field at the end of path (one element for repeated strings).
func SetString(m proto.Message, p Path, v string) {
	if len(p) == 0 {
		fixEventTypes(m.ProtoReflect())
		return
	}
	parent, f := Descend(m, p)
	switch {
	case f.IsList():
		l := parent.Mutable(f).List()
		l.Append(protoreflect.ValueOfString(v))
	default:
		parent.Set(f, protoreflect.ValueOfString(v))
	}
	fixEventTypes(m.ProtoReflect())
}

// fixEventTypes makes every HistoryEvent's event_type agree with its attributes oneof
// (as in real histories; the proxy's shortcut looks at event_type).
func fixEventTypes(m protoreflect.Message) {
	if m.Descriptor().FullName() == "temporal.api.history.v1.HistoryEvent" {
		od := m.Descriptor().Oneofs().ByName("attributes")
		if fd := m.WhichOneof(od); fd != nil {
			if et, ok := EventTypeForAttr[string(fd.Name())]; ok {
				m.Set(m.Descriptor().Fields().ByName("event_type"), protoreflect.ValueOfEnum(protoreflect.EnumNumber(et)))
			}
		}
	}
	m.Range(func(f protoreflect.FieldDescriptor, v protoreflect.Value) bool {
		switch {
		case f.IsMap():
			if f.MapValue().Message() != nil {
				v.Map().Range(func(_ protoreflect.MapKey, mv protoreflect.Value) bool { fixEventTypes(mv.Message()); return true })
			}
		case f.IsList():
			if f.Message() != nil {
				for i := 0; i < v.List().Len(); i++ {
					fixEventTypes(v.List().Get(i).Message())
				}
			}
		case f.Message() != nil:
			fixEventTypes(v.Message())
		}
		return true
	})
}

// EventTypeForAttr maps a HistoryEvent attributes oneof field name to its EventType.
var EventTypeForAttr = map[string]enumspb.EventType{}

// AttrFields lists the attributes oneof fields of HistoryEvent.
var AttrFields []protoreflect.FieldDescriptor

func init() {
	hd := (&historypb.HistoryEvent{}).ProtoReflect().Descriptor()
	od := hd.Oneofs().ByName("attributes")
	norm := func(s string) string { return strings.ToLower(strings.ReplaceAll(s, "_", "")) }
	byNorm := map[string]enumspb.EventType{}
	for name, num := range enumspb.EventType_value {
		byNorm[norm(strings.TrimPrefix(name, "EVENT_TYPE_"))] = enumspb.EventType(num)
	}
	for i := 0; i < od.Fields().Len(); i++ {
		f := od.Fields().Get(i)
		AttrFields = append(AttrFields, f)
		key := norm(strings.TrimSuffix(string(f.Name()), "_event_attributes"))
		if et, ok := byNorm[key]; ok {
			EventTypeForAttr[string(f.Name())] = et
		}
	}
}

// ---------------------------------------------------------------------------------------
// history-event blobs

// EventBlobSites: the DataBlob fields (by full name) that carry serialized history events.
// Reviewed table over all 16 DataBlob fields in the closure of both services.
var EventBlobSites = map[string]bool{
	"temporal.api.workflowservice.v1.GetWorkflowExecutionHistoryResponse.raw_history":              true,
	"temporal.server.api.adminservice.v1.GetWorkflowExecutionRawHistoryResponse.history_batches":   true,
	"temporal.server.api.adminservice.v1.GetWorkflowExecutionRawHistoryV2Response.history_batches": true,
	"temporal.server.api.adminservice.v1.ImportWorkflowExecutionRequest.history_batches":           true,
	"temporal.server.api.adminservice.v1.ReapplyEventsRequest.events":                              true,
	"temporal.server.api.replication.v1.BackfillHistoryTaskAttributes.event_batches":               true,
	"temporal.server.api.replication.v1.HistoryTaskAttributes.events":                              true,
	"temporal.server.api.replication.v1.HistoryTaskAttributes.events_batches":                      true,
	"temporal.server.api.replication.v1.HistoryTaskAttributes.new_run_events":                      true,
	"temporal.server.api.replication.v1.NewRunInfo.event_batch":                                    true,
	"temporal.server.api.replication.v1.VersionedTransitionArtifact.event_batches":                 true,
}

func IsEventBlobSite(f protoreflect.FieldDescriptor) bool {
	return f.Message() != nil && f.Message().FullName() == "temporal.api.common.v1.DataBlob" && EventBlobSites[DescribeField(f)]
}

// EncodeEvents serializes events the way Temporal does (History message, PROTO3 encoding).
func EncodeEvents(events []*historypb.HistoryEvent) *commonpb.DataBlob {
	b, err := proto.Marshal(&historypb.History{Events: events})
	if err != nil {
		panic(err)
	}
	return &commonpb.DataBlob{EncodingType: enumspb.ENCODING_TYPE_PROTO3, Data: b}
}

// EncodeEventsJSON: the same batch as a JSON-encoded blob - the other encoding Temporal's serializer
// (and so the proxy's blob translation) decodes. Written with Temporal's own JSON codec.
func EncodeEventsJSON(events []*historypb.HistoryEvent) *commonpb.DataBlob {
	b, err := codec.NewJSONPBEncoder().Encode(&historypb.History{Events: events})
	if err != nil {
		panic(err)
	}
	return &commonpb.DataBlob{EncodingType: enumspb.ENCODING_TYPE_JSON, Data: b}
}

// EncodeEventsDeterministic: canonical bytes for comparisons (map entries in key order).
func EncodeEventsDeterministic(events []*historypb.HistoryEvent) []byte {
	b, err := proto.MarshalOptions{Deterministic: true}.Marshal(&historypb.History{Events: events})
	if err != nil {
		panic(err)
	}
	return b
}

// FillNamespaceSites sets every namespace-name string field of every message instance present
// in m (also inside history-event blobs) to val - including fields that are unset (the empty
// string is a name too as far as a reflective visitor is concerned).
func FillNamespaceSites(m proto.Message, val string) {
	var fill func(pm protoreflect.Message)
	fillBlob := func(b protoreflect.Message) {
		blob := b.Interface().(*commonpb.DataBlob)
		if evs, ok := DecodeEvents(blob); ok && len(blob.Data) > 0 {
			for _, e := range evs {
				fill(e.ProtoReflect())
			}
			if blob.EncodingType == enumspb.ENCODING_TYPE_JSON {
				blob.Data = EncodeEventsJSON(evs).Data
			} else {
				blob.Data = EncodeEvents(evs).Data
			}
		}
	}
	fill = func(pm protoreflect.Message) {
		fds := pm.Descriptor().Fields()
		for i := 0; i < fds.Len(); i++ {
			f := fds.Get(i)
			if IsNamespaceNameField(f) && !f.IsList() && f.ContainingOneof() == nil {
				pm.Set(f, protoreflect.ValueOfString(val))
				continue
			}
			if !pm.Has(f) {
				continue
			}
			v := pm.Get(f)
			switch {
			case f.IsMap():
				if f.MapValue().Message() != nil {
					v.Map().Range(func(_ protoreflect.MapKey, mv protoreflect.Value) bool { fill(mv.Message()); return true })
				}
			case f.IsList():
				if f.Message() != nil {
					for j := 0; j < v.List().Len(); j++ {
						if IsEventBlobSite(f) {
							fillBlob(v.List().Get(j).Message())
						} else {
							fill(v.List().Get(j).Message())
						}
					}
				}
			case f.Message() != nil:
				if IsEventBlobSite(f) {
					fillBlob(v.Message())
				} else {
					fill(v.Message())
				}
			}
		}
	}
	fill(m.ProtoReflect())
}

// DecodeEvents is the inverse; ok=false when the blob does not hold a History.
func DecodeEvents(b *commonpb.DataBlob) ([]*historypb.HistoryEvent, bool) {
	if b == nil || len(b.Data) == 0 {
		return nil, true
	}
	var h historypb.History
	if b.EncodingType == enumspb.ENCODING_TYPE_JSON {
		if err := codec.NewJSONPBEncoder().Decode(b.Data, &h); err != nil {
			return nil, false
		}
		return h.Events, true
	}
	if err := proto.Unmarshal(b.Data, &h); err != nil {
		return nil, false
	}
	return h.Events, true
}

var _ = rand.Int
