package gen

import (
	"fmt"
	"go.temporal.io/server/common/codec"
	"math/rand"

	commonpb "go.temporal.io/api/common/v1"
	enumspb "go.temporal.io/api/enums/v1"
	historypb "go.temporal.io/api/history/v1"
	"google.golang.org/protobuf/proto"
	"google.golang.org/protobuf/reflect/protoreflect"
)

type PopOpts struct {
	Rng        *rand.Rand
	MaxDepth   int
	NamePool   []string                                            // values for namespace-name fields
	KeyPool    []string                                            // keys for search-attribute containers
	FieldProb  float64                                             // probability that an optional field is set
	BlobEvents int                                                 // max events per history blob
	StringFn   func(f protoreflect.FieldDescriptor) (string, bool) // override for other string fields
}

func (o *PopOpts) pick(pool []string) string { return pool[o.Rng.Intn(len(pool))] }

// Populate fills a new message of the given type with random content.
func Populate(md protoreflect.MessageDescriptor, o *PopOpts) proto.Message {
	m := New(md)
	o.fill(m.ProtoReflect(), 0)
	fixEventTypes(m.ProtoReflect())
	return m
}

func (o *PopOpts) scalar(f protoreflect.FieldDescriptor) protoreflect.Value {
	r := o.Rng
	switch f.Kind() {
	case protoreflect.BoolKind:
		return protoreflect.ValueOfBool(r.Intn(2) == 0)
	case protoreflect.EnumKind:
		vs := f.Enum().Values()
		return protoreflect.ValueOfEnum(vs.Get(r.Intn(vs.Len())).Number())
	case protoreflect.Int32Kind, protoreflect.Sint32Kind, protoreflect.Sfixed32Kind:
		return protoreflect.ValueOfInt32(int32(r.Intn(1000)))
	case protoreflect.Int64Kind, protoreflect.Sint64Kind, protoreflect.Sfixed64Kind:
		return protoreflect.ValueOfInt64(int64(r.Intn(100000)))
	case protoreflect.Uint32Kind, protoreflect.Fixed32Kind:
		return protoreflect.ValueOfUint32(uint32(r.Intn(1000)))
	case protoreflect.Uint64Kind, protoreflect.Fixed64Kind:
		return protoreflect.ValueOfUint64(uint64(r.Intn(100000)))
	case protoreflect.FloatKind:
		return protoreflect.ValueOfFloat32(float32(r.Intn(100)) / 4)
	case protoreflect.DoubleKind:
		return protoreflect.ValueOfFloat64(float64(r.Intn(100)) / 4)
	case protoreflect.StringKind:
		if IsNamespaceNameField(f) {
			return protoreflect.ValueOfString(o.pick(o.NamePool))
		}
		if o.StringFn != nil {
			if s, ok := o.StringFn(f); ok {
				return protoreflect.ValueOfString(s)
			}
		}
		return protoreflect.ValueOfString(fmt.Sprintf("s%d", r.Intn(1000)))
	case protoreflect.BytesKind:
		b := make([]byte, r.Intn(6))
		r.Read(b)
		return protoreflect.ValueOfBytes(b)
	}
	panic("scalar: unexpected kind " + f.Kind().String())
}

func (o *PopOpts) fill(m protoreflect.Message, depth int) {
	md := m.Descriptor()
	switch md.FullName() {
	case "google.protobuf.Timestamp":
		m.Set(md.Fields().ByName("seconds"), protoreflect.ValueOfInt64(1700000000+int64(o.Rng.Intn(100000))))
		return
	case "google.protobuf.Duration":
		m.Set(md.Fields().ByName("seconds"), protoreflect.ValueOfInt64(int64(o.Rng.Intn(1000))))
		return
	case "google.protobuf.Any", "google.protobuf.Struct", "google.protobuf.Value", "google.protobuf.ListValue":
		return
	}
	// one member per oneof
	chosen := map[protoreflect.FullName]protoreflect.FieldDescriptor{}
	for i := 0; i < md.Oneofs().Len(); i++ {
		od := md.Oneofs().Get(i)
		if od.IsSynthetic() {
			continue
		}
		if o.Rng.Float64() < o.FieldProb+0.2 {
			chosen[od.FullName()] = od.Fields().Get(o.Rng.Intn(od.Fields().Len()))
		}
	}
	for i := 0; i < md.Fields().Len(); i++ {
		f := md.Fields().Get(i)
		if od := f.ContainingOneof(); od != nil && !od.IsSynthetic() {
			if chosen[od.FullName()] != f {
				continue
			}
		} else if IsNamespaceNameField(f) || f.Name() == "search_attributes" || f.Name() == "indexed_fields" {
			if o.Rng.Float64() >= 0.85 {
				continue
			}
		} else if o.Rng.Float64() >= o.FieldProb {
			continue
		}
		isMsg := f.Message() != nil && !f.IsMap()
		if (isMsg || f.IsMap() && f.MapValue().Message() != nil) && depth >= o.MaxDepth {
			continue
		}
		switch {
		case f.IsMap():
			mp := m.Mutable(f).Map()
			n := 1 + o.Rng.Intn(2)
			isSA := f.Name() == "search_attributes" || f.Name() == "indexed_fields"
			for k := 0; k < n; k++ {
				key := mapKey(f, o.Rng.Intn(5))
				if isSA && f.MapKey().Kind() == protoreflect.StringKind && len(o.KeyPool) > 0 {
					key = protoreflect.ValueOfString(o.pick(o.KeyPool)).MapKey()
				}
				if f.MapValue().Message() != nil {
					nv := mp.NewValue()
					o.fill(nv.Message(), depth+1)
					mp.Set(key, nv)
				} else {
					mp.Set(key, o.scalar(f.MapValue()))
				}
			}
		case f.IsList():
			l := m.Mutable(f).List()
			n := 1 + o.Rng.Intn(2)
			for k := 0; k < n; k++ {
				if f.Message() != nil {
					if IsEventBlobSite(f) {
						l.Append(protoreflect.ValueOfMessage(o.eventBlob(depth).ProtoReflect()))
						continue
					}
					e := l.NewElement()
					o.fill(e.Message(), depth+1)
					l.Append(e)
				} else {
					l.Append(o.scalar(f))
				}
			}
		case f.Message() != nil:
			if IsEventBlobSite(f) {
				m.Set(f, protoreflect.ValueOfMessage(o.eventBlob(depth).ProtoReflect()))
				continue
			}
			o.fill(m.Mutable(f).Message(), depth+1)
		default:
			m.Set(f, o.scalar(f))
		}
	}
}

func (o *PopOpts) eventBlob(depth int) *commonpb.DataBlob {
	n := 1 + o.Rng.Intn(max(1, o.BlobEvents))
	var evs []*historypb.HistoryEvent
	hd := (&historypb.HistoryEvent{}).ProtoReflect().Descriptor()
	for i := 0; i < n; i++ {
		e := New(hd)
		d := o.MaxDepth - 4
		if d < 0 {
			d = 0
		}
		o.fill(e.ProtoReflect(), d)
		fixEventTypes(e.ProtoReflect())
		evs = append(evs, e.(*historypb.HistoryEvent))
	}
	if o.Rng.Intn(5) == 0 { // the other encoding the serializer reads
		if b, err := codec.NewJSONPBEncoder().Encode(&historypb.History{Events: evs}); err == nil {
			return &commonpb.DataBlob{EncodingType: enumspb.ENCODING_TYPE_JSON, Data: b}
		}
	}
	return EncodeEvents(evs)
}

var _ = enumspb.ENCODING_TYPE_PROTO3
