package gossip

// Routing clause, reachable-remote-owner part (acknowledgements): a real shard manager Q knows a peer
// P as the owner of a source shard and really opens its intra-proxy stream to P - P is a harness gRPC
// server on loopback whose stream handler follows a script (accept k acks, then end the stream cleanly
// or with an error). The oracle is the pair (return value of DeliverAckToShardOwner, what P's handlers
// recorded): "delivered" is only true if some handler of P received that ack exactly once.
//
// The interesting window is the one in which P has already ended the stream, Q's receive loop knows it
// (Recv returned) but has not removed the stream from its table yet. The harness holds that window open
// at the code's own log point on that path (no source change) and forwards acks inside it.

import (
	"encoding/json"
	"fmt"
	"net"
	"strings"
	"sync"
	"testing"
	"time"

	"go.temporal.io/server/api/adminservice/v1"
	replicationv1 "go.temporal.io/server/api/replication/v1"
	"go.temporal.io/server/client/history"
	"go.temporal.io/server/common/channel"
	"google.golang.org/grpc"
	"google.golang.org/grpc/codes"
	"google.golang.org/grpc/status"

	"context"

	"github.com/temporalio/s2s-proxy/config"
	"github.com/temporalio/s2s-proxy/encryption"
	"github.com/temporalio/s2s-proxy/proxy"

	"verifharness/fakes"
	"verifharness/rec"
)

type peerScript struct {
	Accept int    `json:"accept"` // acks read before the handler ends the stream
	Ending string `json:"ending"` // clean | error | stay
}

type fakePeer struct {
	adminservice.UnimplementedAdminServiceServer
	mu       sync.Mutex
	scripts  []peerScript
	next     int
	got      map[int64]int // ack level -> times received (all handlers)
	started  chan int      // handler index, on entry
	returned chan int      // handler index, right before it returns
	stay     chan struct{} // closed to end "stay" handlers
}

func (p *fakePeer) StreamWorkflowReplicationMessages(s adminservice.AdminService_StreamWorkflowReplicationMessagesServer) error {
	p.mu.Lock()
	i := p.next
	p.next++
	sc := peerScript{Ending: "stay", Accept: 1 << 30}
	if i < len(p.scripts) {
		sc = p.scripts[i]
	}
	p.mu.Unlock()
	p.started <- i
	for n := 0; n < sc.Accept; n++ {
		req, err := s.Recv()
		if err != nil {
			p.returned <- i
			return err
		}
		if st := req.GetSyncReplicationState(); st != nil {
			p.mu.Lock()
			p.got[st.GetInclusiveLowWatermark()]++
			p.mu.Unlock()
		}
	}
	switch sc.Ending {
	case "clean":
		p.returned <- i
		return nil
	case "error":
		p.returned <- i
		return status.Error(codes.Unavailable, "owner dropped the shard pair")
	}
	select {
	case <-p.stay:
	case <-s.Context().Done():
	}
	p.returned <- i
	return nil
}

func (p *fakePeer) count(level int64) int {
	p.mu.Lock()
	defer p.mu.Unlock()
	return p.got[level]
}

func waitFor(d time.Duration, f func() bool) bool {
	dl := time.Now().Add(d)
	for time.Now().Before(dl) {
		if f() {
			return true
		}
		time.Sleep(5 * time.Millisecond)
	}
	return f()
}

func peerStream(t *testing.T) (viol []rec.Violation, counts map[string]int64, classes []string, inconclusive string, sample any) {
	counts = map[string]int64{}
	v := func(sig string, w any, f string, a ...any) {
		viol = append(viol, rec.Violation{Prop: "C09", Sig: "routing:" + sig, What: fmt.Sprintf(f, a...), Witness: w})
	}
	lis, err := net.Listen("tcp", "127.0.0.1:0")
	if err != nil {
		return nil, counts, nil, "listen: " + err.Error(), nil
	}
	scripts := []peerScript{
		{3, "clean"}, {3, "error"}, {1, "clean"}, {1, "error"}, {0, "error"}, {0, "clean"}, {2, "error"}, {2, "clean"},
	}
	P := &fakePeer{scripts: scripts, got: map[int64]int{}, started: make(chan int, 64), returned: make(chan int, 64), stay: make(chan struct{})}
	srv := grpc.NewServer()
	adminservice.RegisterAdminServiceServer(srv, P)
	go func() { _ = srv.Serve(lis) }()
	defer srv.Stop()
	defer close(P.stay)

	// Q: real shard manager; its logger is the probe that holds the window open
	probe := fakes.NewProbe(7)
	var armed sync.Mutex
	isArmed := false
	parked := make(chan string, 16)
	release := make(chan struct{}, 16)
	probe.OnHit = func(msg string, _ int) {
		if !strings.Contains(msg, "intra-proxy stream Recv error") && !strings.Contains(msg, "recvReplicationMessages encountered EOF") {
			return
		}
		armed.Lock()
		a := isArmed
		armed.Unlock()
		if !a {
			return
		}
		parked <- msg
		select {
		case <-release:
		case <-time.After(60 * time.Second):
		}
	}
	cfg := &config.MemberlistConfig{Enabled: true, NodeName: "node-q", BindAddr: "127.0.0.1", BindPort: 0, TCPOnly: true,
		ProxyAddresses: map[string]string{"node-q": "127.0.0.1:1", "peer-p": lis.Addr().String()}}
	sm := proxy.NewShardManager(cfg, config.ShardCountConfig{Mode: config.ShardCountRouting, LocalShardCount: 2, RemoteShardCount: 2}, encryption.TLSConfig{}, probe)
	if err := sm.Start(context.Background()); err != nil {
		return nil, counts, nil, "start: " + err.Error(), nil
	}
	// (the instance is left running like the others of this engine: shardManagerImpl.Stop cannot be used -
	// it holds mlMutex across memberlist.Leave, which calls back into NotifyLeave -> mlMutex.RLock and
	// never returns; see DESIGN.md §10.6, outside the listed properties)
	del, _ := proxy.VerifDelegates(sm)

	T := history.ClusterShardID{ClusterID: 2, ShardID: 1} // local to Q: the shard the acks come from
	S := history.ClusterShardID{ClusterID: 1, ShardID: 1} // owned by P
	sm.RegisterShard(T)
	st := proxy.NodeShardState{NodeName: "peer-p", Updated: time.Now(), Shards: map[string]proxy.ShardInfo{
		proxy.ClusterShardIDtoShortString(S): {ID: S, Created: time.Now()}}}
	buf, _ := json.Marshal(st)
	del.MergeRemoteState(buf, true)

	mkAck := func(n int64) *proxy.RoutedAck {
		return &proxy.RoutedAck{TargetShard: T, Req: &adminservice.StreamWorkflowReplicationMessagesRequest{Attributes: &adminservice.StreamWorkflowReplicationMessagesRequest_SyncReplicationState{
			SyncReplicationState: &replicationv1.SyncReplicationState{InclusiveLowWatermark: n}}}}
	}
	sd := channel.NewShutdownOnce()
	lg := fakes.NewProbe(8)
	level := int64(1000)
	cl := map[string]bool{}
	for ti, sc := range scripts {
		armed.Lock()
		isArmed = true
		armed.Unlock()
		var hidx int
		select {
		case hidx = <-P.started:
		case <-time.After(20 * time.Second):
			return viol, counts, nil, fmt.Sprintf("trial %d: the instance never opened its stream to the known owner", ti), sample
		}
		if hidx != ti {
			return viol, counts, nil, fmt.Sprintf("trial %d: handler %d started (script out of step)", ti, hidx), sample
		}
		witness := map[string]any{"trial": ti, "script": sc}
		// healthy part: k acks, each must be accepted (after the stream is usable) and arrive exactly once
		for k := 0; k < sc.Accept; k++ {
			level++
			n := level
			ok := waitFor(10*time.Second, func() bool { return sm.DeliverAckToShardOwner(S, mkAck(n), sd, lg, n, true) })
			counts["routing_probes"]++
			if !ok {
				v("reachable-owner-never-accepted", witness, "ack %d for a shard whose known remote owner holds an open intra-proxy stream was reported undelivered for 10 s", n)
				continue
			}
			counts["acks_forwarded_to_owner"]++
			if !waitFor(10*time.Second, func() bool { return P.count(n) >= 1 }) {
				v("ack-reported-delivered-never-received", witness, "ack %d was reported delivered to the remote owner over a live stream but the owner never received it", n)
			}
		}
		// the owner ends the stream; Q's receive loop learns it and is held before it removes the stream
		select {
		case <-P.returned:
		case <-time.After(20 * time.Second):
			return viol, counts, nil, fmt.Sprintf("trial %d: owner handler did not return", ti), sample
		}
		var where string
		select {
		case where = <-parked:
		case <-time.After(20 * time.Second):
			counts["window_not_reached"]++
			continue
		}
		counts["termination_windows_held"]++
		cl[fmt.Sprintf("accept=%d|%s|%s", sc.Accept, sc.Ending, where[:20])] = true
		for rep := 0; rep < 2; rep++ {
			level++
			n := level
			got := sm.DeliverAckToShardOwner(S, mkAck(n), sd, lg, n, true)
			counts["routing_probes"]++
			counts["acks_into_terminated_stream"]++
			if got && !waitFor(2*time.Second, func() bool { return P.count(n) >= 1 }) {
				v("ack-reported-delivered-on-terminated-owner-stream", witness,
					"ack %d was forwarded after the remote owner had ended the intra-proxy stream (ending=%s, after %d acks; the instance's receive loop had already seen the end): reported delivered, received by nobody", n, sc.Ending, sc.Accept)
			}
			if !got {
				counts["reported_undelivered"]++
			}
		}
		if sample == nil {
			sample = map[string]any{"trial": witness, "window_held_at": where, "acks_forwarded_before_end": sc.Accept}
		}
		armed.Lock()
		isArmed = ti+1 < len(scripts)
		armed.Unlock()
		release <- struct{}{}
	}
	// after the scripts: the next stream stays; acks flow again and arrive exactly once
	armed.Lock()
	isArmed = false
	armed.Unlock()
	select {
	case <-P.started:
		for k := 0; k < 3; k++ {
			level++
			n := level
			ok := waitFor(10*time.Second, func() bool { return sm.DeliverAckToShardOwner(S, mkAck(n), sd, lg, n, true) })
			counts["routing_probes"]++
			if ok {
				counts["acks_forwarded_to_owner"]++
				if !waitFor(10*time.Second, func() bool { return P.count(n) >= 1 }) {
					v("ack-reported-delivered-never-received", nil, "ack %d was reported delivered over the re-established stream but never received", n)
				}
			} else {
				v("reachable-owner-never-accepted", nil, "ack %d: re-established stream to the known owner never accepted an ack", n)
			}
		}
	case <-time.After(20 * time.Second):
		counts["reestablish_not_observed"]++
	}
	P.mu.Lock()
	for lvl, c := range P.got {
		if c > 1 {
			v("ack-delivered-twice", nil, "ack %d arrived %d times at the remote owner", lvl, c)
		}
	}
	P.mu.Unlock()
	for c := range cl {
		classes = append(classes, c)
	}
	return viol, counts, classes, "", sample
}
