// Package gossip: real shard managers (with their real memberlist delegates) whose gossip
// network is played by the harness: announcements and full-state merges are delivered in
// every order, with duplicates, delays and leave events (C09).
package gossip

import (
	"context"
	"encoding/json"
	"fmt"
	"net"
	"sort"
	"strings"
	"testing"
	"time"

	"github.com/hashicorp/memberlist"
	"go.temporal.io/server/api/adminservice/v1"
	replicationv1 "go.temporal.io/server/api/replication/v1"
	"go.temporal.io/server/client/history"
	"go.temporal.io/server/common/channel"

	"github.com/temporalio/s2s-proxy/config"
	"github.com/temporalio/s2s-proxy/encryption"
	"github.com/temporalio/s2s-proxy/proxy"
	"verifharness/fakes"
	"verifharness/rec"
)

type inst struct {
	name string
	sm   proxy.ShardManager
	del  memberlist.Delegate
	ev   memberlist.EventDelegate
}

var shards = []history.ClusterShardID{{ClusterID: 2, ShardID: 1}, {ClusterID: 2, ShardID: 2}}

func newInstances(t *testing.T, n int, probe *fakes.Probe) []*inst {
	var out []*inst
	addrs := map[string]string{}
	for i := 0; i < n; i++ {
		addrs[fmt.Sprintf("node-%c", 'a'+i)] = "127.0.0.1:1" // known address, nothing listens: forwarding fails fast
	}
	for i := 0; i < n; i++ {
		name := fmt.Sprintf("node-%c", 'a'+i)
		cfg := &config.MemberlistConfig{Enabled: true, NodeName: name, BindAddr: "127.0.0.1", BindPort: 0, ProxyAddresses: addrs, TCPOnly: true}
		sm := proxy.NewShardManager(cfg, config.ShardCountConfig{Mode: config.ShardCountRouting, LocalShardCount: 2, RemoteShardCount: 2}, encryption.TLSConfig{}, probe)
		if err := sm.Start(context.Background()); err != nil {
			t.Fatalf("start %s: %v", name, err)
		}
		d, e := proxy.VerifDelegates(sm)
		out = append(out, &inst{name: name, sm: sm, del: d, ev: e})
	}
	return out
}

// step of a scenario
type step struct {
	Kind  string `json:"kind"`           // claim | unclaim | deliver | merge | leave
	From  int    `json:"from"`           // acting / sending instance
	To    int    `json:"to"`             // receiving instance (deliver, merge, leave: the instance that is told)
	Shard int    `json:"shard"`          // shard index
	Ann   int    `json:"ann"`            // deliver: index of the announcement (in order of creation)
	Dead  bool   `json:"dead,omitempty"` // leave: the node crashed (memberlist reports StateDead) instead of leaving gracefully (StateLeft)
}

type announcement struct {
	from  int
	shard int
	typ   string
	data  []byte
}

type scenario struct {
	Name  string `json:"name"`
	Steps []step `json:"steps"`
}

func reset(insts []*inst) {
	for _, in := range insts {
		for _, sh := range shards {
			in.sm.UnregisterShard(sh, createdOf(in, sh))
		}
		for _, other := range insts {
			in.ev.NotifyLeave(&memberlist.Node{Name: other.name, Addr: net.IPv4(127, 0, 0, 1)})
		}
	}
}

func createdOf(in *inst, sh history.ClusterShardID) time.Time {
	var st proxy.NodeShardState
	_ = json.Unmarshal(in.del.LocalState(false), &st)
	if si, ok := st.Shards[proxy.ClusterShardIDtoShortString(sh)]; ok {
		return si.Created
	}
	return time.Time{}
}

func owns(in *inst, sh history.ClusterShardID) bool {
	_, ok := in.sm.GetLocalShards()[proxy.ClusterShardIDtoShortString(sh)]
	return ok
}

// run executes a scenario and returns (violations, description of final state)
func run(insts []*inst, sc scenario, finalSync bool) ([]rec.Violation, string) {
	reset(insts)
	var anns []announcement
	claimAt := map[[2]int]time.Time{} // (inst, shard) -> time of the live claim (harness clock)
	regTS := map[[2]int]time.Time{}   // (inst, shard) -> registration time as returned by RegisterShard
	everNewest := map[int]time.Time{} // shard -> time of the newest claim ever made
	everNewestBy := map[int]int{}
	left := map[int]bool{}
	for _, st := range sc.Steps {
		switch st.Kind {
		case "claim":
			time.Sleep(2 * time.Microsecond) // distinct clock readings
			regTS[[2]int{st.From, st.Shard}] = insts[st.From].sm.RegisterShard(shards[st.Shard])
			// The claim's time is the harness's own reading of the clock, not the value the code returns (a
			// registration that keeps an old time would otherwise define what "newest" means); the announcement
			// carries the time of broadcasting, as broadcastShardChange does (time.Now() after registering).
			time.Sleep(time.Microsecond)
			ts := time.Now()
			claimAt[[2]int{st.From, st.Shard}] = ts
			if ts.After(everNewest[st.Shard]) {
				everNewest[st.Shard], everNewestBy[st.Shard] = ts, st.From
			}
			b, _ := json.Marshal(proxy.ShardMessage{Type: "register", NodeName: insts[st.From].name, ClientShard: shards[st.Shard], Timestamp: ts})
			anns = append(anns, announcement{st.From, st.Shard, "register", b})
		case "unclaim":
			insts[st.From].sm.UnregisterShard(shards[st.Shard], regTS[[2]int{st.From, st.Shard}])
			delete(claimAt, [2]int{st.From, st.Shard})
			b, _ := json.Marshal(proxy.ShardMessage{Type: "unregister", NodeName: insts[st.From].name, ClientShard: shards[st.Shard], Timestamp: time.Now()})
			anns = append(anns, announcement{st.From, st.Shard, "unregister", b})
		case "deliver":
			if st.Ann < len(anns) && !left[st.To] {
				insts[st.To].del.NotifyMsg(anns[st.Ann].data)
			}
		case "merge":
			if !left[st.To] && !left[st.From] {
				insts[st.To].del.MergeRemoteState(insts[st.From].del.LocalState(false), false)
			}
		case "leave":
			left[st.From] = true
			state := memberlist.StateLeft
			if st.Dead {
				state = memberlist.StateDead
			}
			for i, in := range insts {
				if i != st.From {
					in.ev.NotifyLeave(&memberlist.Node{Name: insts[st.From].name, Addr: net.IPv4(127, 0, 0, 1), State: state})
				}
			}
		}
	}
	if finalSync { // a last round of push/pull between all live pairs (memberlist does this periodically)
		for i := range insts {
			for j := range insts {
				if i != j && !left[i] && !left[j] {
					insts[j].del.MergeRemoteState(insts[i].del.LocalState(false), false)
				}
			}
		}
	}
	// expected owner per shard: the live (not withdrawn, not departed) claim with the newest time.
	// A claim evicted by a newer one is dead even if the newer one is withdrawn later.
	var viol []rec.Violation
	var desc []string
	for si, sh := range shards {
		var claimants []int
		for k := range claimAt {
			if k[1] == si && !left[k[0]] {
				claimants = append(claimants, k[0])
			}
		}
		if len(claimants) == 0 {
			continue
		}
		sort.Slice(claimants, func(a, b int) bool {
			return claimAt[[2]int{claimants[a], si}].After(claimAt[[2]int{claimants[b], si}])
		})
		newest := claimants[0]
		var owners []string
		for i, in := range insts {
			if left[i] {
				continue
			}
			if owns(in, sh) {
				owners = append(owners, in.name)
			}
		}
		desc = append(desc, fmt.Sprintf("shard %d owners=%v newest=%s", si+1, owners, insts[newest].name))
		// A newer claim evicts the older ones. If the newest claim ever made has since been withdrawn (or its
		// instance left), whether an older claimant was already evicted depends on what reached it: the only
		// requirement then is that ownership is not duplicated.
		if by := everNewestBy[si]; by != newest || !claimAt[[2]int{by, si}].Equal(everNewest[si]) {
			if len(owners) > 1 {
				viol = append(viol, rec.Violation{Prop: "C09", Sig: "convergence:several-owners:" + shape(sc), What: fmt.Sprintf("shard %v is owned by %v at the same time", sh, owners)})
			}
			continue
		}
		if len(owners) != 1 || owners[0] != insts[newest].name {
			kind := "several-owners"
			if len(owners) == 0 {
				kind = "no-owner"
			} else if len(owners) == 1 {
				kind = "wrong-owner"
			}
			viol = append(viol, rec.Violation{Prop: "C09", Sig: "convergence:" + kind + ":" + shape(sc), What: fmt.Sprintf("after all deliveries shard %v is owned by %v; the newest live claim is %s's", sh, owners, insts[newest].name)})
		}
		if finalSync {
			// every live instance's view of its peers lists the shard only under the owner
			for i, in := range insts {
				if left[i] {
					continue
				}
				view, _ := in.sm.GetRemoteShardsForPeer("")
				for peer, st := range view {
					if _, has := st.Shards[proxy.ClusterShardIDtoShortString(sh)]; has && peer != insts[newest].name {
						viol = append(viol, rec.Violation{Prop: "C09", Sig: "view:stale-remote-owner:" + shape(sc), What: fmt.Sprintf("%s still believes %s owns shard %v after the final state exchange (owner is %s)", in.name, peer, sh, insts[newest].name)})
					}
				}
			}
		}
	}
	for i := range insts {
		if !left[i] {
			continue
		}
		for j, in := range insts {
			if j == i || left[j] {
				continue
			}
			view, _ := in.sm.GetRemoteShardsForPeer("")
			if st, ok := view[insts[i].name]; ok && len(st.Shards) > 0 {
				viol = append(viol, rec.Violation{Prop: "C09", Sig: "leave:departed-instance-still-owns:" + shape(sc), What: fmt.Sprintf("%s left, yet %s still lists it as owner of %d shards", insts[i].name, in.name, len(st.Shards))})
			}
		}
	}
	return viol, strings.Join(desc, "; ")
}

// shape: the multiset of step kinds - coarse enough to group permutations of one scenario family
func shape(sc scenario) string {
	c := map[string]int{}
	for _, s := range sc.Steps {
		c[s.Kind]++
	}
	return fmt.Sprintf("claims%d-unclaims%d-leaves%d", c["claim"], c["unclaim"], c["leave"])
}

func permute(n int, f func([]int)) {
	p := make([]int, n)
	for i := range p {
		p[i] = i
	}
	var rec func(k int)
	rec = func(k int) {
		if k == n {
			f(p)
			return
		}
		for i := k; i < n; i++ {
			p[k], p[i] = p[i], p[k]
			rec(k + 1)
			p[k], p[i] = p[i], p[k]
		}
	}
	rec(0)
}

// families of scenarios: claim orders x every order of the deliveries, with a duplicate and a merge
// inserted at every position
func families(nInst, nShard int, withLeave, withUnclaim bool) []scenario {
	var out []scenario
	// claim sets: every non-empty subset of instances claims shard 0 (and shard 1 mirrors with reversed order)
	var orders [][]int
	permute(nInst, func(p []int) { orders = append(orders, append([]int{}, p...)) })
	for _, ord := range orders {
		for size := 2; size <= nInst; size++ {
			cl := ord[:size]
			var claims []step
			var deliveries []step
			ann := 0
			for sh := 0; sh < nShard; sh++ {
				seq := cl
				if sh == 1 { // second shard claimed in the opposite order
					seq = make([]int, len(cl))
					for i := range cl {
						seq[i] = cl[len(cl)-1-i]
					}
				}
				for _, c := range seq {
					claims = append(claims, step{Kind: "claim", From: c, Shard: sh})
					for to := 0; to < nInst; to++ {
						if to != c {
							deliveries = append(deliveries, step{Kind: "deliver", To: to, Ann: ann})
						}
					}
					ann++
				}
			}
			if len(deliveries) > 7 {
				continue
			}
			permute(len(deliveries), func(p []int) {
				base := append([]step{}, claims...)
				for _, i := range p {
					base = append(base, deliveries[i])
				}
				out = append(out, scenario{Steps: base})
				// one duplicate of the first delivery at the end, one merge in the middle
				if p[0] == 0 {
					dup := append(append([]step{}, base...), deliveries[p[0]])
					out = append(out, scenario{Steps: dup})
					mid := len(claims) + len(p)/2
					mg := append([]step{}, base[:mid]...)
					mg = append(mg, step{Kind: "merge", From: cl[0], To: cl[len(cl)-1]})
					mg = append(mg, base[mid:]...)
					out = append(out, scenario{Steps: mg})
				}
				if withLeave && p[0] == 0 {
					// the oldest claimant leaves at every position after the claims
					for pos := len(claims); pos <= len(base); pos += 2 {
						lv := append([]step{}, base[:pos]...)
						// the peers know the leaver's shards from an earlier state exchange
						for to := 0; to < nInst; to++ {
							if to != cl[0] {
								lv = append(lv, step{Kind: "merge", From: cl[0], To: to})
							}
						}
						lv = append(lv, step{Kind: "leave", From: cl[0], Dead: (pos/2)%2 == 0})
						lv = append(lv, base[pos:]...)
						out = append(out, scenario{Steps: lv})
					}
				}
			})
			if size == 2 && nShard == 1 {
				// re-claim: a claims, b claims, a claims AGAIN while its first registration is still in place (its
				// stream reconnected to the same instance). Three announcements, every delivery order, with a
				// duplicate. The newest claim is a's second one.
				a, b := cl[0], cl[1]
				cls := []step{{Kind: "claim", From: a}, {Kind: "claim", From: b}, {Kind: "claim", From: a}}
				dl := []step{{Kind: "deliver", To: b, Ann: 0}, {Kind: "deliver", To: a, Ann: 1}, {Kind: "deliver", To: b, Ann: 2}}
				permute(len(dl), func(p []int) {
					st := append([]step{}, cls...)
					for _, i := range p {
						st = append(st, dl[i])
					}
					out = append(out, scenario{Name: "reclaim", Steps: st})
					out = append(out, scenario{Name: "reclaim", Steps: append(append([]step{}, st...), dl[p[0]])})
				})
				// ... and with b's announcement arriving between a's two registrations being announced
				for _, mid := range [][]step{{dl[1]}, {dl[0], dl[1]}, {dl[1], dl[0]}} {
					st := []step{cls[0], cls[1]}
					st = append(st, mid...)
					st = append(st, cls[2], dl[2])
					if len(mid) == 1 {
						st = append(st, dl[0])
					}
					out = append(out, scenario{Name: "reclaim-after-delivery", Steps: st})
				}
			}
			if withUnclaim && size == 2 && nShard == 1 {
				// the newer claimant withdraws; its register/unregister announcements reach the older one in either order
				a, b := cl[0], cl[1]
				for _, order := range [][]int{{1, 2}, {2, 1}} {
					st := []step{{Kind: "claim", From: a}, {Kind: "claim", From: b}, {Kind: "deliver", To: b, Ann: 0}, {Kind: "unclaim", From: b}}
					for _, o := range order {
						st = append(st, step{Kind: "deliver", To: a, Ann: o})
					}
					out = append(out, scenario{Name: "withdrawn", Steps: st})
				}
			}
		}
	}
	return out
}

// TestConvergenceRace: the smallest family and the routing probes again under the race detector (the
// full permutation space runs without it: memberlist's background goroutines make -race ~100x slower here).
func TestConvergenceRace(t *testing.T) { convergence(t, true) }

func TestConvergence(t *testing.T) { convergence(t, false) }

func convergence(t *testing.T, raceSubset bool) {
	out := rec.Default()
	probe := fakes.NewProbe(1)
	insts := newInstances(t, 3, probe)
	type fam struct {
		name           string
		nInst, nShard  int
		leave, unclaim bool
	}
	fams := []fam{{"2x1", 2, 1, true, true}, {"3x1", 3, 1, true, false}, {"2x2", 2, 2, true, false}}
	if raceSubset {
		fams = fams[:1]
	}
	idx := 0
	for _, f := range fams {
		scs := families(f.nInst, f.nShard, f.leave, f.unclaim)
		block := 200
		for b := 0; b < len(scs); b += block {
			idx++
			name := fmt.Sprintf("convergence/%s/%d", f.name, b)
			if raceSubset {
				name = "race-" + name
			}
			if !rec.Want(idx, name) {
				continue
			}
			out.Begin(name, map[string]any{"family": f.name, "scenarios": min(block, len(scs)-b)})
			var viol []rec.Violation
			counts := map[string]int64{}
			classes := map[string]bool{}
			var sample any
			for k := b; k < b+block && k < len(scs); k++ {
				sc := scs[k]
				for _, fin := range []bool{false, true} {
					v, desc := run(insts[:f.nInst], sc, fin)
					counts["scenarios"]++
					for i := range v {
						v[i].Witness = sc
					}
					viol = append(viol, v...)
					if sample == nil && len(sc.Steps) > 5 {
						sample = map[string]any{"scenario": sc, "final_state": desc}
					}
				}
				classes[f.name+"|"+shape(sc)+"|"+fmt.Sprint(len(sc.Steps))] = true
				counts["deliveries"] += int64(len(sc.Steps))
			}
			var cl []string
			for c := range classes {
				cl = append(cl, c)
			}
			counts["exhaustive_blocks_completed"] = 1
			out.End(rec.Line{Case: name, Viol: dedupe(viol), Counts: counts, Classes: cl, Sample: sample})
		}
	}
	// routing clause, in-process part: local stream / nobody / closing local stream / remote owner without reachable address
	idx++
	rname := "routing"
	if raceSubset {
		rname = "race-routing"
	}
	if rec.Want(idx, rname) {
		out.Begin(rname, nil)
		viol, counts := routing(insts)
		out.End(rec.Line{Case: rname, Viol: dedupe(viol), Counts: counts, Class: rname})
	}
	// routing clause, reachable remote owner: acks over a real intra-proxy stream that the owner ends
	idx++
	pname := "peer-stream"
	if raceSubset {
		pname = "race-peer-stream"
	}
	if rec.Want(idx, pname) {
		out.Begin(pname, nil)
		viol, counts, classes, inc, sample := peerStream(t)
		l := rec.Line{Case: pname, Viol: dedupe(viol), Counts: counts, Classes: classes, Sample: sample}
		if inc != "" && len(viol) == 0 {
			l.Verdict, l.Why = rec.Inconclusive, inc
		}
		out.End(l)
	}
}

func routing(insts []*inst) ([]rec.Violation, map[string]int64) {
	var viol []rec.Violation
	counts := map[string]int64{}
	v := func(sig, f string, a ...any) {
		viol = append(viol, rec.Violation{Prop: "C09", Sig: "routing:" + sig, What: fmt.Sprintf(f, a...)})
	}
	reset(insts)
	a, b := insts[0], insts[1]
	X := shards[0]
	src := history.ClusterShardID{ClusterID: 1, ShardID: 1}
	mkMsg := func(n int64) *proxy.RoutedMessage {
		return &proxy.RoutedMessage{SourceShard: src, Resp: &adminservice.StreamWorkflowReplicationMessagesResponse{Attributes: &adminservice.StreamWorkflowReplicationMessagesResponse_Messages{
			Messages: &replicationv1.WorkflowReplicationMessages{ExclusiveHighWatermark: n}}}}
	}
	mkAck := func(n int64) *proxy.RoutedAck {
		return &proxy.RoutedAck{TargetShard: X, Req: &adminservice.StreamWorkflowReplicationMessagesRequest{Attributes: &adminservice.StreamWorkflowReplicationMessagesRequest_SyncReplicationState{
			SyncReplicationState: &replicationv1.SyncReplicationState{InclusiveLowWatermark: n}}}}
	}
	sd := channel.NewShutdownOnce()
	lg := fakes.NewProbe(2)
	// (forwarding to a known but unreachable owner waits 2 s for a peer stream before giving up: few rounds)
	for round := 0; round < 4; round++ {
		// 1. nobody owns the shard: undelivered
		if a.sm.DeliverMessagesToShardOwner(X, mkMsg(1), sd, lg) {
			v("delivered-to-nobody", "message for a shard nobody owns was reported delivered")
		}
		if a.sm.DeliverAckToShardOwner(src, mkAck(1), sd, lg, 1, true) {
			v("ack-delivered-to-nobody", "ack for a source shard nobody owns was reported delivered")
		}
		counts["routing_probes"] += 2
		// 2. local stream present: delivered locally exactly once
		ch := make(chan proxy.RoutedMessage, 4)
		a.sm.SetRemoteSendChan(X, ch)
		if !a.sm.DeliverMessagesToShardOwner(X, mkMsg(int64(100+round)), sd, lg) || len(ch) != 1 {
			v("local-not-delivered", "message for a shard with a local stream: delivered=%v, %d messages in the local channel (want exactly 1)", false, len(ch))
		} else if m := <-ch; m.Resp.GetMessages().GetExclusiveHighWatermark() != int64(100+round) {
			v("local-wrong-message", "local stream received a different message")
		}
		ach := make(chan proxy.RoutedAck, 4)
		a.sm.SetLocalAckChan(src, ach)
		if !a.sm.DeliverAckToShardOwner(src, mkAck(int64(200+round)), sd, lg, int64(200+round), true) || len(ach) != 1 {
			v("local-ack-not-delivered", "ack for a source with a local receiver: %d acks in the local channel (want exactly 1)", len(ach))
		}
		counts["routing_probes"] += 2
		// 3. the local stream is shutting down: its channel is closed but still registered. No remote owner
		//    is known, so the message must be reported undelivered - not silently dropped
		close(ch)
		if a.sm.DeliverMessagesToShardOwner(X, mkMsg(3), sd, lg) {
			v("closed-local-stream-reported-delivered", "message handed to a shard whose local stream is closing (channel closed) and with no remote owner was reported delivered")
		}
		close(ach)
		if a.sm.DeliverAckToShardOwner(src, mkAck(3), sd, lg, 3, false) {
			v("closed-local-ack-reported-delivered", "ack handed to a source whose local receiver is closing (channel closed) was reported delivered")
		}
		a.sm.RemoveRemoteSendChan(X, ch)
		a.sm.RemoveLocalAckChan(src, ach)
		counts["routing_probes"] += 2
		// 4. a remote owner is known (state merge) but cannot be reached: undelivered, and nothing arrives locally
		tsb := b.sm.RegisterShard(X)
		a.del.MergeRemoteState(b.del.LocalState(false), false)
		bch := make(chan proxy.RoutedMessage, 4)
		b.sm.SetRemoteSendChan(X, bch)
		if a.sm.DeliverMessagesToShardOwner(X, mkMsg(4), sd, lg) {
			v("unreachable-owner-reported-delivered", "message for a shard owned by an unreachable peer was reported delivered")
		}
		if len(bch) != 0 {
			v("delivered-out-of-band", "message appeared on the remote owner's stream although forwarding failed")
		}
		// the owner itself delivers locally
		if !b.sm.DeliverMessagesToShardOwner(X, mkMsg(5), sd, lg) || len(bch) != 1 {
			v("owner-local-not-delivered", "owner instance did not deliver to its own local stream exactly once (%d)", len(bch))
		}
		b.sm.RemoveRemoteSendChan(X, bch)
		b.sm.UnregisterShard(X, tsb)
		a.ev.NotifyLeave(&memberlist.Node{Name: b.name, Addr: net.IPv4(127, 0, 0, 1)})
		counts["routing_probes"] += 2
	}
	return viol, counts
}

func dedupe(v []rec.Violation) []rec.Violation {
	seen := map[string]bool{}
	var out []rec.Violation
	for _, x := range v {
		if !seen[x.Sig] {
			seen[x.Sig] = true
			out = append(out, x)
		}
	}
	return out
}
