package fwdsim

import (
	"context"
	"fmt"
	"math"
	"math/rand"
	"runtime"
	"strings"
	"sync"
	"sync/atomic"
	"testing"
	"time"

	"go.temporal.io/server/client/history"
	"google.golang.org/grpc/metadata"

	"github.com/temporalio/s2s-proxy/config"
	"github.com/temporalio/s2s-proxy/encryption"
	"github.com/temporalio/s2s-proxy/proxy"
	"verifharness/fakes"
	"verifharness/rec"
)

// C20: stream-open metadata boundary values, then a well-formed stream on the same server.
// Runs in real time (no bubble): a wedged observer lock would keep a bubble from ever going
// idle. Verdicts are state-based: "not served" is a violation only when the goroutine dump
// shows a handler goroutine parked inside the observer's bookkeeping; a plain timeout
// without that state is inconclusive.

type metaCase struct {
	Name string            `json:"name"`
	Mode string            `json:"mode"`
	MD   map[string]string `json:"metadata"` // "" value = header missing; "dup" suffix handled in Dup
	Dup  string            `json:"dup,omitempty"`
}

var mdKeys = []string{history.MetadataKeyClientClusterID, history.MetadataKeyClientShardID, history.MetadataKeyServerClusterID, history.MetadataKeyServerShardID}

func goodMD() map[string]string {
	return map[string]string{mdKeys[0]: "2", mdKeys[1]: "1", mdKeys[2]: "1", mdKeys[3]: "1"}
}


func waitFor(d time.Duration, cond func() bool) bool {
	deadline := time.Now().Add(d)
	for time.Now().Before(deadline) {
		if cond() {
			return true
		}
		time.Sleep(200 * time.Microsecond)
	}
	return cond()
}

// stuckInObserver: a wedge of the stream observer, as opposed to a slow machine: some goroutine waits for
// the observer's lock AND the lock cannot be taken for 20 s by a fresh caller either (PrintActiveStreams
// takes the same lock; under mere contention Go's mutex hands it over within milliseconds).
func stuckInObserver(o *proxy.ReplicationStreamObserver) string {
	buf := make([]byte, 8<<20)
	n := runtime.Stack(buf, true)
	blocked := ""
	for _, g := range strings.Split(string(buf[:n]), "\n\n") {
		if strings.Contains(g, "ReplicationStreamObserver") && (strings.Contains(g, "sync.(*Mutex).Lock") || strings.Contains(g, "semacquire")) {
			blocked = g
			break
		}
	}
	if blocked == "" || o == nil {
		return blocked
	}
	done := make(chan struct{})
	go func() { _ = o.PrintActiveStreams(); close(done) }()
	select {
	case <-done:
		return "" // slow, not wedged
	case <-time.After(20 * time.Second):
		return blocked + "\n(the observer's lock could not be taken by a fresh caller for 20 s either)"
	}
}

func runMeta(c metaCase) (viol []rec.Violation, counts map[string]int64, inconclusive string, log []string) {
	counts = map[string]int64{}
	v := func(sig, f string, a ...any) {
		viol = append(viol, rec.Violation{Prop: "C20", Sig: sig, What: fmt.Sprintf(f, a...)})
	}
	probe := fakes.NewProbe(1)
	observer := proxy.NewReplicationStreamObserver(probe)
	src := &fakeAdmin{window: 4, shardCount: 4}
	rev := &fakeAdmin{window: 4, shardCount: 4}
	life, lifeCancel := context.WithCancel(context.Background())
	defer lifeCancel()
	scc := config.ShardCountConfig{}
	lcm := proxy.LCMParameters{}
	rp := proxy.RoutingParameters{}
	var sm proxy.ShardManager
	switch c.Mode {
	case "lcm":
		scc = config.ShardCountConfig{Mode: config.ShardCountLCM, LocalShardCount: 4, RemoteShardCount: 6}
		lcm = proxy.LCMParameters{LCM: 12, TargetShardCount: 4}
	case "routing":
		scc = config.ShardCountConfig{Mode: config.ShardCountRouting, LocalShardCount: 4, RemoteShardCount: 6}
		rp = proxy.RoutingParameters{OverrideShardCount: 6, RoutingLocalShardCount: 4, DirectionLabel: "inbound"}
		sm = proxy.NewShardManager(nil, scc, encryption.TLSConfig{}, probe)
		_ = sm.Start(life)
	}
	// wired exactly as createServer wires it: observer.ReportStreamValue
	h := proxy.NewAdminServiceProxyServer("inboundAdminService", src, rev, proxy.AdminServiceOverrides{}, []string{"inbound"}, observer.ReportStreamValue, scc, lcm, rp, probe, sm, life)

	open := func(md map[string]string, dup string) (ss *fakes.ServerSide, done chan error, cancel context.CancelFunc) {
		var pairs []string
		for _, k := range mdKeys {
			if val, ok := md[k]; ok && val != "\x00missing" {
				pairs = append(pairs, k, val)
			}
		}
		if dup != "" {
			pairs = append(pairs, dup, "7")
		}
		ictx, icancel := context.WithCancel(metadata.NewIncomingContext(context.Background(), metadata.Pairs(pairs...)))
		ss = fakes.NewServerSide(ictx, 4)
		done = make(chan error, 1)
		go func() {
			done <- h.StreamWorkflowReplicationMessages(ss)
			icancel()
		}()
		return ss, done, icancel
	}
	opensTotal := func() int { return len(src.opens()) + len(rev.opens()) }
	finishAll := func() {
		for _, o := range append(src.opens(), rev.opens()...) {
			o.cs.Finish(nil)
		}
	}

	// 1. the hostile open
	before := opensTotal()
	_, done1, cancel1 := open(c.MD, c.Dup)
	var err1 error
	returned1 := false
	served1 := waitFor(2*time.Second, func() bool {
		select {
		case err1 = <-done1:
			returned1 = true
			return true
		default:
		}
		return opensTotal() > before
	})
	switch {
	case returned1:
		counts["hostile_rejected_or_ended"] = 1
		log = append(log, fmt.Sprintf("hostile open returned: %v", err1))
	case served1:
		counts["hostile_served"] = 1
		log = append(log, "hostile open is being served (outgoing stream opened)")
	default:
		if g := stuckInObserver(observer); g != "" {
			v("wedged:hostile-open-parked-in-observer", "hostile open neither served nor rejected; a handler goroutine is parked in the stream observer:\n%s", firstLines(g, 12))
		} else {
			log = append(log, "hostile open neither returned nor opened an outgoing stream within 2 s (routing mode serves without an immediate outgoing stream)")
			counts["hostile_pending"] = 1
		}
	}
	// end it
	cancel1()
	finishAll()
	if !returned1 {
		if !waitFor(8*time.Second, func() bool {
			select {
			case err1 = <-done1:
				return true
			default:
				finishAll()
				return false
			}
		}) {
			if g := stuckInObserver(observer); g != "" {
				v("wedged:hostile-stream-cannot-end", "hostile stream's handler does not return after both sides ended; parked in the stream observer:\n%s", firstLines(g, 12))
			} else {
				inconclusive = "hostile stream's handler did not return within 8 s after both sides ended (no observer wedge visible)"
			}
		}
	}

	// 2. a well-formed stream on the same server must be served end to end
	before = opensTotal()
	ss2, done2, cancel2 := open(goodMD(), "")
	ok := waitFor(6*time.Second, func() bool { return opensTotal() > before })
	if !ok {
		if g := stuckInObserver(observer); g != "" {
			v("wedged:follow-up-stream-blocked-in-observer", "after metadata %v a well-formed stream is not served: its handler is parked in the stream observer's bookkeeping:\n%s", c.MD, firstLines(g, 14))
		} else {
			select {
			case e := <-done2:
				v("follow-up-stream-rejected", "after metadata %v a well-formed stream was rejected: %v", c.MD, e)
			default:
				if inconclusive == "" {
					inconclusive = "follow-up stream not served within 6 s, no wedge visible in the goroutine dump"
				}
			}
		}
	} else if c.Mode != "routing" {
		o := src.opens()[len(src.opens())-1]
		var got sync.WaitGroup
		got.Add(2)
		var r1, r2 bool
		go func() {
			defer got.Done()
			select {
			case <-ss2.Out():
				r1 = true
			case <-time.After(6 * time.Second):
			}
		}()
		go func() {
			defer got.Done()
			select {
			case <-o.cs.In():
				r2 = true
			case <-time.After(6 * time.Second):
			}
		}()
		o.cs.Offer(mkResp(1))
		ss2.Offer(mkAck(1))
		got.Wait()
		if !r1 || !r2 {
			if inconclusive == "" {
				inconclusive = fmt.Sprintf("follow-up stream opened but relay incomplete within 6 s (to initiator %v, to source %v)", r1, r2)
			}
		} else {
			counts["follow_up_served_end_to_end"] = 1
		}
	} else {
		counts["follow_up_served_end_to_end"] = 1 // routing: the reverse stream to the source was opened
	}
	cancel2()
	finishAll()
	waitFor(8*time.Second, func() bool {
		finishAll()
		select {
		case <-done2:
			return true
		default:
			return false
		}
	})
	lifeCancel()
	// 3. conservation: every +1 had its -1
	if inconclusive == "" && len(viol) == 0 {
		var active string
		okc := waitFor(3*time.Second, func() bool { active = observer.PrintActiveStreams(); return active == "[]" })
		if !okc {
			v("observer-counters-not-conserved", "after all streams ended the observer still reports active streams %s (metadata %v)", active, c.MD)
		} else {
			counts["counters_conserved"] = 1
		}
	}
	return
}

// manyOpen: more distinct shard ids open at once than any real cluster has shards (LCM-mode fake ids, or a
// misbehaving peer), the observer's periodic report running over them, then a well-formed stream: the
// bookkeeping of the many must not block the one. Every stream goes through the real handler.
func manyOpen(mode string, n int) (viol []rec.Violation, counts map[string]int64, inconclusive string) {
	counts = map[string]int64{}
	v := func(sig, f string, a ...any) {
		viol = append(viol, rec.Violation{Prop: "C20", Sig: sig, What: fmt.Sprintf(f, a...)})
	}
	probe := fakes.NewProbe(1)
	observer := proxy.NewReplicationStreamObserver(probe)
	src := &fakeAdmin{window: 4, shardCount: 4}
	life, lifeCancel := context.WithCancel(context.Background())
	defer lifeCancel()
	scc := config.ShardCountConfig{}
	lcm := proxy.LCMParameters{}
	if mode == "lcm" {
		scc = config.ShardCountConfig{Mode: config.ShardCountLCM, LocalShardCount: 4, RemoteShardCount: 6}
		lcm = proxy.LCMParameters{LCM: 12, TargetShardCount: 4}
	}
	h := proxy.NewAdminServiceProxyServer("inboundAdminService", src, nil, proxy.AdminServiceOverrides{}, []string{"inbound"}, observer.ReportStreamValue, scc, lcm, proxy.RoutingParameters{}, probe, nil, life)
	opens := func() int { src.mu.Lock(); defer src.mu.Unlock(); return len(src.opened) }
	var cancels []context.CancelFunc
	var dones []chan error
	open := func(id int) {
		md := goodMD()
		md[mdKeys[3]] = fmt.Sprint(id)
		var pairs []string
		for _, k := range mdKeys {
			pairs = append(pairs, k, md[k])
		}
		ictx, icancel := context.WithCancel(metadata.NewIncomingContext(context.Background(), metadata.Pairs(pairs...)))
		ss := fakes.NewServerSide(ictx, 4)
		done := make(chan error, 1)
		go func() { done <- h.StreamWorkflowReplicationMessages(ss) }()
		cancels, dones = append(cancels, icancel), append(dones, done)
	}
	for id := 1; id <= n; id++ {
		open(id)
	}
	if !waitFor(90*time.Second, func() bool { return opens() >= n }) {
		return nil, counts, fmt.Sprintf("only %d of %d streams were being served after 90 s (setup)", opens(), n)
	}
	counts["streams_held_open"] = int64(n)
	// the periodic report over all of them (what the observer's ticker calls)
	rep := make(chan string, 1)
	go func() { rep <- observer.PrintActiveStreams() }()
	select {
	case s := <-rep:
		counts["report_calls_returned"]++
		counts["report_bytes"] = int64(len(s))
	case <-time.After(30 * time.Second):
		v("wedged:active-stream-report-never-returns", "with %d distinct shard ids open, the observer's active-stream report did not return within 30 s", n)
	}
	// a well-formed stream now
	before := opens()
	open(7)
	if !waitFor(10*time.Second, func() bool { return opens() > before }) {
		if g := stuckInObserver(observer); g != "" {
			v("wedged:follow-up-stream-blocked-in-observer:many-open", "with %d distinct shard ids open and after one active-stream report, a well-formed stream is not served: its handler is parked in the stream observer's bookkeeping:\n%s", n, firstLines(g, 14))
		} else if len(viol) == 0 {
			inconclusive = "follow-up stream not served within 10 s with many streams open, no wedge visible"
		}
	} else {
		counts["follow_up_served_end_to_end"]++
	}
	// everything ends
	for _, c := range cancels {
		c()
	}
	src.mu.Lock()
	for _, o := range src.opened {
		o.cs.Finish(nil)
	}
	src.mu.Unlock()
	ended := 0
	deadline := time.Now().Add(60 * time.Second)
	for _, d := range dones {
		select {
		case <-d:
			ended++
		case <-time.After(time.Until(deadline)):
		}
	}
	if ended < len(dones) {
		if g := stuckInObserver(observer); g != "" {
			v("wedged:streams-cannot-end:many-open", "%d of %d handlers did not return after both sides ended; parked in the stream observer:\n%s", len(dones)-ended, len(dones), firstLines(g, 12))
		} else if len(viol) == 0 {
			inconclusive = fmt.Sprintf("%d of %d handlers did not return within 60 s after both sides ended (no observer wedge visible)", len(dones)-ended, len(dones))
		}
		return
	}
	if len(viol) == 0 {
		var active string
		if !waitFor(5*time.Second, func() bool { active = observer.PrintActiveStreams(); return active == "[]" }) {
			if len(active) > 200 {
				active = active[:200] + "..."
			}
			v("observer-counters-not-conserved:many-open", "after %d streams with distinct shard ids ended the observer still reports active streams %s", n, active)
		} else {
			counts["counters_conserved"]++
		}
	}
	return
}

func firstLines(s string, n int) string {
	l := strings.Split(s, "\n")
	if len(l) > n {
		l = l[:n]
	}
	return strings.Join(l, "\n")
}

func TestMeta(t *testing.T) {
	out := rec.Default()
	boundary := []int64{math.MinInt32, -(1 << 30), -1, 0, 1, 1023, 1024, 1025, 16384, 1 << 20, 238609293, 238609294, 1 << 28, 1<<28 + 1, math.MaxInt32,
		1 << 31, 1<<32 + 5, 1<<32 - 1, 1<<33 + 238609294, -(1 << 31) - 1, math.MaxInt64, math.MinInt64}
	weird := []string{"", "\x00missing", "abc", "1.5", " 1", "1 ", "0x10", "+3", "-0", "99999999999999999999", "１"}
	var cases []metaCase
	for _, mode := range []string{"default", "lcm", "routing"} {
		for ki, k := range mdKeys {
			for _, b := range boundary {
				md := goodMD()
				md[k] = fmt.Sprint(b)
				cases = append(cases, metaCase{Mode: mode, MD: md})
			}
			for _, w := range weird {
				md := goodMD()
				md[k] = w
				cases = append(cases, metaCase{Mode: mode, MD: md})
			}
			cases = append(cases, metaCase{Mode: mode, MD: goodMD(), Dup: k})
			_ = ki
		}
		// pairs of hostile ids
		big := []int64{-1, 0, 238609294, math.MaxInt32, math.MinInt32, 1 << 28}
		for _, a := range big {
			for _, b := range big {
				md := goodMD()
				md[mdKeys[1]], md[mdKeys[3]] = fmt.Sprint(a), fmt.Sprint(b)
				cases = append(cases, metaCase{Mode: mode, MD: md})
			}
		}
	}
	rng := rand.New(rand.NewSource(rec.Seed()))
	nRand := 300
	if rec.Thorough() {
		nRand = 4000
	}
	for i := 0; i < nRand; i++ {
		md := goodMD()
		k := mdKeys[rng.Intn(4)]
		val := int64(int32(rng.Uint32()))
		if rng.Intn(3) == 0 {
			val = int64(rng.Int31n(1 << 22)) // large but serviceable ids
		}
		md[k] = fmt.Sprint(val)
		if rng.Intn(4) == 0 {
			md[mdKeys[rng.Intn(4)]] = fmt.Sprint(int64(int32(rng.Uint32())))
		}
		cases = append(cases, metaCase{Mode: []string{"default", "lcm", "routing"}[rng.Intn(3)], MD: md})
	}
	sampled := 0
	for idx, c := range cases {
		c.Name = fmt.Sprintf("%s/%s=%q,%s=%q/%s", c.Mode, "cs", c.MD[mdKeys[1]], "ss", c.MD[mdKeys[3]], rec.Hash(fmt.Sprint(c.MD), c.Dup))
		if !rec.Want(idx, c.Name) {
			continue
		}
		out.Begin(c.Name, c)
		viol, counts, inconc, log := runMeta(c)
		counts["hostile_opens"] = 1
		l := rec.Line{Case: c.Name, Viol: viol, Counts: counts, Class: c.Mode + "|" + fmt.Sprint(c.MD) + c.Dup}
		if inconc != "" && len(viol) == 0 {
			l.Verdict, l.Why = rec.Inconclusive, inconc
		}
		for i := range l.Viol {
			l.Viol[i].Witness = map[string]any{"case": c, "log": log}
		}
		if sampled < 3 && idx%7 == 3 {
			sampled++
			l.Sample = map[string]any{"case": c, "log": log, "result": counts}
		}
		out.End(l)
	}
	// more distinct ids open at once than a real cluster has shards, plus the observer's report
	for mi, mode := range []string{"default", "lcm"} {
		name := "many-open/" + mode
		if !rec.Want(len(cases)+5+9*mi, name) {
			continue
		}
		out.Begin(name, map[string]any{"mode": mode, "streams": 16500})
		viol, counts, inconc := manyOpen(mode, 16500)
		l := rec.Line{Case: name, Viol: viol, Counts: counts, Class: name}
		if inconc != "" && len(viol) == 0 {
			l.Verdict, l.Why = rec.Inconclusive, inconc
		}
		out.End(l)
	}
}

// concurrentMeta: streams with growing shard ids are opened and closed concurrently with
// ordinary streams on one server; afterwards every counter must be back to zero.
func concurrentMeta(mode string, rounds int, seed int64) (viol []rec.Violation, counts map[string]int64, inconclusive string) {
	counts = map[string]int64{}
	rng := rand.New(rand.NewSource(seed))
	for r := 0; r < rounds; r++ {
		probe := fakes.NewProbe(1)
		observer := proxy.NewReplicationStreamObserver(probe)
		src := &fakeAdmin{window: 4, shardCount: 4}
		life, lifeCancel := context.WithCancel(context.Background())
		scc := config.ShardCountConfig{}
		lcm := proxy.LCMParameters{}
		if mode == "lcm" {
			scc = config.ShardCountConfig{Mode: config.ShardCountLCM, LocalShardCount: 4, RemoteShardCount: 6}
			lcm = proxy.LCMParameters{LCM: 12, TargetShardCount: 4}
		}
		h := proxy.NewAdminServiceProxyServer("inboundAdminService", src, nil, proxy.AdminServiceOverrides{}, []string{"inbound"}, observer.ReportStreamValue, scc, lcm, proxy.RoutingParameters{}, probe, nil, life)
		src.onOpen = func(o *openRec) {
			// the fake source ends each stream shortly after it was opened
			d := time.Duration(50+(len(o.md.Get(mdKeys[3])[0])*37+r*13)%300) * time.Microsecond
			go func() { time.Sleep(d); o.cs.Finish(nil) }()
		}
		ids := []int{1, 2, 3, 4, 5, 6, 7, 8}
		grow := []int{1024, 1100, 2000, 5000, 20000, 100000, 1 << 20, 1 << 21}
		var wg sync.WaitGroup
		stuck := atomic.Int64{}
		run := func(id int) {
			defer wg.Done()
			md := goodMD()
			md[mdKeys[3]] = fmt.Sprint(id)
			var pairs []string
			for _, k := range mdKeys {
				pairs = append(pairs, k, md[k])
			}
			ictx, icancel := context.WithCancel(metadata.NewIncomingContext(context.Background(), metadata.Pairs(pairs...)))
			defer icancel()
			ss := fakes.NewServerSide(ictx, 4)
			done := make(chan error, 1)
			go func() { done <- h.StreamWorkflowReplicationMessages(ss) }()
			select {
			case <-done:
			case <-time.After(20 * time.Second):
				stuck.Add(1)
			}
		}
		for k := 0; k < 3; k++ {
			for _, id := range ids {
				wg.Add(1)
				go run(id)
			}
		}
		for _, id := range grow {
			wg.Add(1)
			go run(id + rng.Intn(50))
		}
		wg.Wait()
		lifeCancel()
		counts["concurrent_streams"] += int64(3*len(ids) + len(grow))
		if stuck.Load() > 0 {
			if g := stuckInObserver(observer); g != "" {
				viol = append(viol, rec.Violation{Prop: "C20", Sig: "wedged:concurrent-stream-parked-in-observer", What: "a stream handler is parked in the stream observer during concurrent opens:\n" + firstLines(g, 12)})
			} else {
				inconclusive = "a concurrent stream did not finish within 20 s (no observer wedge visible)"
			}
			return
		}
		if active := observer.PrintActiveStreams(); active != "[]" {
			viol = append(viol, rec.Violation{Prop: "C20", Sig: "observer-counters-not-conserved:concurrent", What: fmt.Sprintf("round %d (%s mode): after %d concurrently opened and closed streams (8 of them with shard ids that grow the observer's table) the observer still reports active streams %s", r, mode, 3*len(ids)+len(grow), active)})
			return
		}
		counts["concurrent_rounds_conserved"]++
	}
	return
}

func TestMetaConcurrent(t *testing.T) {
	out := rec.Default()
	rounds, chunk := 60, 30
	if rec.Thorough() {
		rounds = 1500
	}
	i, _ := rec.Shard()
	for _, mode := range []string{"default", "lcm"} {
		// (cases of 30 rounds: a slow machine then stretches many short cases instead of one long one
		// into the per-case watchdog)
		for c := 0; c*chunk < rounds; c++ {
			name := fmt.Sprintf("concurrent/%s/%d/%d", mode, i, c)
			if rec.Only() != "" && rec.Only() != name {
				continue
			}
			if after := rec.ResumeAfter(); after != "" && strings.HasPrefix(after, "concurrent/") && skipUntil(&after, name) {
				continue
			}
			out.Begin(name, map[string]any{"mode": mode, "rounds": chunk})
			viol, counts, inc := concurrentMeta(mode, chunk, rec.Mix(rec.Seed(), name))
			l := rec.Line{Case: name, Viol: viol, Counts: counts, Class: fmt.Sprintf("concurrent/%s", mode)}
			if inc != "" && len(viol) == 0 {
				l.Verdict, l.Why = rec.Inconclusive, inc
			}
			out.End(l)
		}
	}
}

var resumeDone bool

// skipUntil: a restarted child skips every case up to and including the one it died in
func skipUntil(after *string, name string) bool {
	if resumeDone {
		return false
	}
	if name == *after {
		resumeDone = true
	}
	return true
}
