package fwdsim

import (
	"context"
	"fmt"
	"io"
	"math/rand"
	"strings"
	"sync"
	"testing"
	"testing/synctest"
	"time"

	"go.temporal.io/server/api/adminservice/v1"
	enumsspb "go.temporal.io/server/api/enums/v1"
	replicationv1 "go.temporal.io/server/api/replication/v1"
	"go.temporal.io/server/client/history"
	"google.golang.org/grpc/codes"
	"google.golang.org/grpc/metadata"
	"google.golang.org/grpc/status"
	"google.golang.org/protobuf/proto"
	"google.golang.org/protobuf/types/known/timestamppb"

	"github.com/temporalio/s2s-proxy/config"
	"github.com/temporalio/s2s-proxy/proxy"
	"verifharness/fakes"
	"verifharness/rec"
)

var endings = []string{"source-eof", "source-error", "initiator-halfclose", "initiator-cancel", "initiator-disconnect",
	"send-to-initiator-fails", "send-to-source-fails", "unknown-kind-from-source", "unknown-kind-from-initiator", "none"}

type fwdCase struct {
	Name   string `json:"name"`
	Mode   string `json:"mode"` // default | lcm
	Script string `json:"script"` // S = source message, A = initiator ack
	Pos    int    `json:"pos"`
	Ending string `json:"ending"`
	Skew   string `json:"skew"` // lockstep | burst | slow-initiator | slow-source
	Window int    `json:"window"`
}

type fwdOutcome struct {
	viol   []rec.Violation
	counts map[string]int64
	log    []string
}

// Messages are built so that neighbours share some fields: consecutive acks come in pairs with
// the same legacy and high-priority watermark but different flow-control command, low-priority
// state and time; every third source message is an exact repeat of a watermark-only message
// (as idle keep-alives are). A relay that de-duplicates or coalesces is therefore visible.
func mkResp(i int) *fakes.Resp {
	if i%3 == 2 {
		return &fakes.Resp{Attributes: &adminservice.StreamWorkflowReplicationMessagesResponse_Messages{Messages: &replicationv1.WorkflowReplicationMessages{
			ExclusiveHighWatermark: 5000, Priority: enumsspb.TASK_PRIORITY_HIGH}}}
	}
	tasks := []*replicationv1.ReplicationTask{}
	for k := 0; k < 1+i%3; k++ {
		tasks = append(tasks, &replicationv1.ReplicationTask{SourceTaskId: int64(1000 + i*10 + k), TaskType: enumsspb.REPLICATION_TASK_TYPE_HISTORY_V2_TASK,
			VisibilityTime: timestamppb.New(time.Unix(1700000000+int64(i), 0))})
	}
	return &fakes.Resp{Attributes: &adminservice.StreamWorkflowReplicationMessagesResponse_Messages{Messages: &replicationv1.WorkflowReplicationMessages{
		ReplicationTasks: tasks, ExclusiveHighWatermark: int64(1000 + i*10 + 5), Priority: enumsspb.TASK_PRIORITY_HIGH}}}
}

func mkAck(j int) *fakes.Req {
	w := int64(900 + j/2)
	cmd := enumsspb.REPLICATION_FLOW_CONTROL_COMMAND_RESUME
	if j%2 == 1 {
		cmd = enumsspb.REPLICATION_FLOW_CONTROL_COMMAND_PAUSE
	}
	return &fakes.Req{Attributes: &adminservice.StreamWorkflowReplicationMessagesRequest_SyncReplicationState{SyncReplicationState: &replicationv1.SyncReplicationState{
		InclusiveLowWatermark: w, InclusiveLowWatermarkTime: timestamppb.New(time.Unix(1700000000+int64(j), 0)),
		HighPriorityState: &replicationv1.ReplicationState{InclusiveLowWatermark: w, FlowControlCommand: cmd},
		LowPriorityState:  &replicationv1.ReplicationState{InclusiveLowWatermark: int64(800 + j)}}}}
}

func runForward(c fwdCase) *fwdOutcome {
	o := &fwdOutcome{counts: map[string]int64{}}
	var lmu sync.Mutex
	logf := func(f string, a ...any) {
		lmu.Lock()
		o.log = append(o.log, fmt.Sprintf(f, a...))
		lmu.Unlock()
	}
	viol := func(sig, f string, a ...any) {
		lmu.Lock()
		o.viol = append(o.viol, rec.Violation{Prop: "C06", Sig: sig, What: fmt.Sprintf(f, a...)})
		lmu.Unlock()
	}
	probe := fakes.NewProbe(1)
	src := &fakeAdmin{window: c.Window}
	scc := config.ShardCountConfig{}
	lcm := proxy.LCMParameters{}
	serverShard := 2
	if c.Mode == "lcm" {
		scc = config.ShardCountConfig{Mode: config.ShardCountLCM, LocalShardCount: 3, RemoteShardCount: 2}
		lcm = proxy.LCMParameters{LCM: 6, TargetShardCount: 3}
		serverShard = 5
	}
	life, lifeCancel := context.WithCancel(context.Background())
	defer lifeCancel()
	h := proxy.NewAdminServiceProxyServer("svc", src, nil, proxy.AdminServiceOverrides{}, []string{"inbound"}, func(int32, int32) {}, scc, lcm, proxy.RoutingParameters{}, probe, nil, life)
	base := census()
	md := metadata.Pairs(history.MetadataKeyClientClusterID, "2", history.MetadataKeyClientShardID, "1",
		history.MetadataKeyServerClusterID, "1", history.MetadataKeyServerShardID, fmt.Sprint(serverShard))
	ictx, icancel := context.WithCancel(metadata.NewIncomingContext(context.Background(), md))
	defer icancel()
	ss := fakes.NewServerSide(ictx, c.Window)
	var handlerErr error
	handlerDone := make(chan struct{})
	go func() {
		handlerErr = h.StreamWorkflowReplicationMessages(ss)
		logf("handler returned: %v", handlerErr)
		close(handlerDone)
		icancel() // gRPC cancels the server stream's context when the handler returns
	}()
	synctest.Wait()
	ops := src.opens()
	if len(ops) != 1 {
		viol("no-source-stream", "handler opened %d source streams, want 1", len(ops))
		icancel()
		time.Sleep(3 * time.Second)
		return o
	}
	cs := ops[0].cs

	// consumers
	var gotResp []*fakes.Resp
	var gotAck []*fakes.Req
	var gmu sync.Mutex
	stop := make(chan struct{})
	initiatorDelay, sourceDelay := time.Duration(0), time.Duration(0)
	if c.Skew == "slow-initiator" {
		initiatorDelay = 700 * time.Millisecond
	}
	if c.Skew == "slow-source" {
		sourceDelay = 700 * time.Millisecond
	}
	go func() {
		for {
			select {
			case m := <-ss.Out():
				gmu.Lock()
				gotResp = append(gotResp, m)
				gmu.Unlock()
				if initiatorDelay > 0 {
					time.Sleep(initiatorDelay)
				}
			case <-stop:
				return
			}
		}
	}()
	go func() {
		if c.Skew == "source-stalled" {
			// the source never reads what the proxy sends it: after a window of acks the forwarder's
			// ack worker sits blocked in its send to the source (back-pressure)
			<-stop
			return
		}
		for {
			select {
			case m := <-cs.In():
				gmu.Lock()
				gotAck = append(gotAck, m)
				gmu.Unlock()
				if sourceDelay > 0 {
					time.Sleep(sourceDelay)
				}
			case <-stop:
				return
			}
		}
	}()

	// producers: one goroutine per direction so that a full window in one direction does not
	// hold the other; step releases come from the script order.
	var sentResp []*fakes.Resp
	var sentAck []*fakes.Req
	sourceEnded, initiatorEnded := false, false
	respQ := make(chan *fakes.Resp, 64)
	ackQ := make(chan *fakes.Req, 64)
	// a clean end (EOF / half-close) is issued by the producer itself after everything queued
	// before it has been handed over - as a real peer's end-of-stream follows its last message
	var eofAfterDrain, halfCloseAfterDrain bool
	var pmu sync.Mutex
	go func(q chan *fakes.Resp) {
		for m := range q {
			if !cs.Offer(m) {
				return
			}
		}
		pmu.Lock()
		fin := eofAfterDrain
		pmu.Unlock()
		if fin {
			cs.Finish(nil)
		}
	}(respQ)
	go func(q chan *fakes.Req) {
		for m := range q {
			if !ss.Offer(m) {
				return
			}
		}
		pmu.Lock()
		hc := halfCloseAfterDrain
		pmu.Unlock()
		if hc {
			ss.HalfClose()
		}
	}(ackQ)
	settle := func() {
		if c.Skew == "lockstep" {
			time.Sleep(10 * time.Millisecond)
			synctest.Wait()
		}
	}
	step := func(ch byte, i int) {
		switch ch {
		case 'S':
			if sourceEnded {
				return
			}
			m := mkResp(i)
			sentResp = append(sentResp, m)
			respQ <- m
		case 'A':
			if initiatorEnded {
				return
			}
			m := mkAck(i)
			sentAck = append(sentAck, m)
			ackQ <- m
		}
		settle()
	}
	respBeforeEnd, ackBeforeEnd := -1, -1
	expectEnd := false
	for i := 0; i <= len(c.Script); i++ {
		if i == c.Pos {
			respBeforeEnd, ackBeforeEnd = len(sentResp), len(sentAck)
			logf("ending %s at position %d (after %d source messages, %d acks offered)", c.Ending, i, respBeforeEnd, ackBeforeEnd)
			switch c.Ending {
			case "source-eof":
				// a clean end comes after what was sent: let the producer drain first
				pmu.Lock()
				eofAfterDrain = true
				pmu.Unlock()
				close(respQ)
				respQ = nil
				sourceEnded = true
				expectEnd = true
			case "source-error":
				sourceEnded = true
				cs.Finish(status.Error(codes.Unavailable, "injected source failure"))
				expectEnd = true
			case "initiator-halfclose":
				pmu.Lock()
				halfCloseAfterDrain = true
				pmu.Unlock()
				close(ackQ)
				ackQ = nil
				initiatorEnded = true
				expectEnd = true
			case "initiator-cancel":
				initiatorEnded = true
				icancel()
				expectEnd = true
			case "initiator-disconnect":
				initiatorEnded = true
				ss.FailSends(status.Error(codes.Unavailable, "transport is closing"))
				icancel()
				expectEnd = true
			case "send-to-initiator-fails":
				ss.FailSends(status.Error(codes.Unavailable, "injected send failure"))
				expectEnd = strings.Contains(c.Script[min(i, len(c.Script)):], "S")
			case "send-to-source-fails":
				cs.FailSends(io.EOF)
				expectEnd = strings.Contains(c.Script[min(i, len(c.Script)):], "A")
			case "unknown-kind-from-source":
				sentResp = append(sentResp, nil) // marker: not relayed
				if respQ != nil {
					respQ <- &fakes.Resp{}
				}
				sentResp = sentResp[:len(sentResp)-1]
				sourceEnded = true // whatever follows need not arrive
				expectEnd = true
			case "unknown-kind-from-initiator":
				if ackQ != nil {
					ackQ <- &fakes.Req{}
				}
				initiatorEnded = true
				expectEnd = true
			}
			settle()
		}
		if i < len(c.Script) {
			step(c.Script[i], i)
		}
	}
	if respQ != nil {
		close(respQ)
	}
	if ackQ != nil {
		close(ackQ)
	}
	// bound: 5 virtual seconds (forwardAcks' own 1 s CloseSend timeout included), more for slow consumers
	bound := 5*time.Second + time.Duration(len(c.Script))*(initiatorDelay+sourceDelay)
	time.Sleep(bound)
	synctest.Wait()
	returned := false
	select {
	case <-handlerDone:
		returned = true
	default:
	}
	gmu.Lock()
	nr, na := len(gotResp), len(gotAck)
	// relay oracle: prefixes, equal, in order
	for i, m := range gotResp {
		if i >= len(sentResp) || !proto.Equal(m, sentResp[i]) {
			viol("relay:source-to-initiator", "initiator received message %d that differs from (or was not among) what the source sent, in order", i)
			break
		}
	}
	for i, m := range gotAck {
		if i >= len(sentAck) || !proto.Equal(m, sentAck[i]) {
			viol("relay:initiator-to-source", "source received ack %d that differs from (or was not among) what the initiator sent, in order", i)
			break
		}
	}
	gmu.Unlock()
	switch c.Ending {
	case "source-eof":
		if nr < respBeforeEnd {
			// distinguish the history: did the initiator send an ack after the source's end
			// (that ack fails at the finished source stream and takes the relay down with it)?
			sub := "no-ack-involved"
			if len(sentAck) > ackBeforeEnd || na < len(sentAck) {
				sub = "ack-hit-finished-source" // an ack was offered after, or was still in flight at, the source's end
			}
			viol("relay:lost-before-clean-eof:"+sub, "source ended cleanly after %d messages but the initiator received only %d (acks offered after the source's end: %d)", respBeforeEnd, nr, len(sentAck)-ackBeforeEnd)
		}
	case "initiator-halfclose":
		if na < ackBeforeEnd {
			sub := "no-message-after-halfclose"
			if len(sentResp) > respBeforeEnd {
				sub = "message-sent-after-halfclose"
			}
			viol("relay:lost-before-halfclose:"+sub, "initiator half-closed after %d acks but the source received only %d", ackBeforeEnd, na)
		}
	case "none":
		if nr != len(sentResp) || na != len(sentAck) {
			viol("relay:lost-on-healthy-stream", "healthy stream: %d/%d source messages and %d/%d acks relayed within %v", nr, len(sentResp), na, len(sentAck), bound)
		}
	}
	// termination oracle
	if expectEnd {
		if !returned {
			viol("termination:handler-not-returned:"+c.Ending, "ending %q at position %d: handler has not returned after %v of virtual time (half-open stream)", c.Ending, c.Pos, bound)
		} else {
			half := false
			select {
			case <-cs.HalfClosed():
				half = true
			default:
			}
			if !half && cs.Context().Err() == nil {
				viol("termination:source-side-left-open", "handler returned but the source stream saw neither half-close nor cancellation")
			}
		}
	} else if returned && c.Ending == "none" {
		viol("termination:spurious-end", "healthy stream ended by itself: %v", handlerErr)
	}
	o.counts["relayed_source_msgs"] = int64(nr)
	o.counts["relayed_acks"] = int64(na)
	if returned {
		o.counts["handler_returned"] = 1
	}
	// tear down whatever is left and take the census
	icancel()
	cs.Finish(nil)
	close(stop)
	time.Sleep(5 * time.Second)
	synctest.Wait()
	select {
	case <-handlerDone:
	default:
		viol("termination:handler-stuck-after-cancel", "handler still running 5 s after the initiator's context was cancelled and the source ended")
	}
	if left := censusDiff(base, census()); len(left) > 0 {
		viol("termination:worker-left-running", "goroutines of the proxy still alive after both sides ended: %v", left)
	}
	return o
}


func TestForward(t *testing.T) {
	out := rec.Default()
	scripts := []string{"SASASASASASA", "SSSSSSAAAAAA", "AAAAAASSSSSS", "SSASSASSASSA", "SSSSSSSSSSSS", "AAAAAAAAAAAA"}
	skews := []string{"lockstep", "burst", "slow-initiator", "slow-source"}
	var cases []fwdCase
	for _, mode := range []string{"default", "lcm"} {
		for si, sc := range scripts {
			for _, e := range endings {
				for p := 0; p <= len(sc); p++ {
					if e == "none" && p > 0 {
						continue
					}
					for ki, sk := range skews {
						if !rec.Thorough() && (si+p+ki)%2 == 1 && sk != "lockstep" {
							continue
						}
						cases = append(cases, fwdCase{Mode: mode, Script: sc, Pos: p, Ending: e, Skew: sk, Window: 1 + (p+si+ki)%4})
					}
					// a source that never reads, so that the ack worker is blocked in its send when the stream is ended from
					// the initiator's side (or by a source error): those endings must still get through
					if (e == "initiator-cancel" || e == "initiator-disconnect" || e == "source-error") && strings.Count(sc[:p], "A") >= 3 && (rec.Thorough() || (si+p)%2 == 0) {
						cases = append(cases, fwdCase{Mode: mode, Script: sc, Pos: p, Ending: e, Skew: "source-stalled", Window: 1 + (p+si)%2})
					}
				}
			}
		}
	}
	if rec.Thorough() {
		rng := rand.New(rand.NewSource(rec.Seed()))
		for k := 0; k < 150000; k++ {
			n := 1 + rng.Intn(12)
			b := make([]byte, n)
			for i := range b {
				b[i] = "SA"[rng.Intn(2)]
			}
			cases = append(cases, fwdCase{Mode: []string{"default", "lcm"}[rng.Intn(2)], Script: string(b), Pos: rng.Intn(n + 1), Ending: endings[rng.Intn(len(endings))],
				Skew: skews[rng.Intn(len(skews))], Window: 1 + rng.Intn(6)})
		}
	}
	sampled := 0
	for idx, c := range cases {
		c.Name = fmt.Sprintf("%s/%s/%s@%d/%s/w%d", c.Mode, c.Script, c.Ending, c.Pos, c.Skew, c.Window)
		if !rec.Want(idx, c.Name) {
			continue
		}
		out.Begin(c.Name, c)
		var o *fwdOutcome
		t.Run("case", func(t *testing.T) {
			synctest.Test(t, func(t *testing.T) { o = runForward(c) })
		})
		if o == nil {
			out.End(rec.Line{Case: c.Name, Verdict: rec.Inconclusive, Why: "no outcome"})
			continue
		}
		o.counts["positions"] = 1
		l := rec.Line{Case: c.Name, Viol: o.viol, Counts: o.counts, Class: fmt.Sprintf("%s|%s|%s|%d|%s", c.Mode, c.Script, c.Ending, c.Pos, c.Skew)}
		for i := range l.Viol {
			l.Viol[i].Witness = map[string]any{"case": c, "log": o.log}
		}
		if sampled < 2 && c.Ending != "none" && c.Pos > 3 {
			sampled++
			l.Sample = map[string]any{"case": c, "log": o.log, "relayed": o.counts}
		}
		out.End(l)
	}
}
