package fwdsim

import (
	"context"
	"fmt"
	"math/rand"
	"strconv"
	"testing"
	"testing/synctest"
	"time"

	farm "github.com/dgryski/go-farm"
	"go.temporal.io/server/api/adminservice/v1"
	"go.temporal.io/server/client/history"
	"google.golang.org/grpc/metadata"

	"github.com/temporalio/s2s-proxy/common"
	"github.com/temporalio/s2s-proxy/config"
	"github.com/temporalio/s2s-proxy/proxy"
	"verifharness/fakes"
	"verifharness/rec"
)

func gcd64(a, b int64) int64 {
	for b != 0 {
		a, b = b, a%b
	}
	return a
}

// lcmBlock runs, for one (local, remote) pair and one direction, DescribeCluster and a set of
// LCM shard ids through the real handler and checks everything against harness arithmetic.
// direction "inbound": the server faces the remote cluster and forwards to the local one
// (TargetShardCount = local); "outbound": the opposite.
func lcmBlock(local, remote int32, direction string, shards []int32, hashSamples int, rng *rand.Rand) (viol []rec.Violation, streams int64, sample any) {
	v := func(sig, f string, a ...any) {
		if len(viol) < 5 {
			viol = append(viol, rec.Violation{Prop: "C07", Sig: sig, What: fmt.Sprintf("local=%d remote=%d %s: ", local, remote, direction) + fmt.Sprintf(f, a...)})
		}
	}
	L := int64(local) * int64(remote) / gcd64(int64(local), int64(remote))
	serving := local // the cluster the stream is forwarded to
	if direction == "outbound" {
		serving = remote
	}
	// parameters computed exactly as NewClusterConnection does (common.LCM is the repo's function)
	params := proxy.LCMParameters{LCM: common.LCM(local, remote), TargetShardCount: serving}
	scc := config.ShardCountConfig{Mode: config.ShardCountLCM, LocalShardCount: local, RemoteShardCount: remote}
	src := &fakeAdmin{window: 2, shardCount: serving}
	probe := fakes.NewProbe(1)
	life, cancel := context.WithCancel(context.Background())
	defer cancel()
	h := proxy.NewAdminServiceProxyServer(direction+"AdminService", src, nil, proxy.AdminServiceOverrides{}, []string{direction}, func(int32, int32) {}, scc, params, proxy.RoutingParameters{}, probe, nil, life)

	// DescribeCluster reports the LCM
	resp, err := h.DescribeCluster(context.Background(), &adminservice.DescribeClusterRequest{})
	if err != nil || resp == nil {
		v("describe-cluster-error", "DescribeCluster failed: %v", err)
	} else if int64(resp.HistoryShardCount) != L {
		v("describe-cluster-not-lcm", "DescribeCluster reports %d shards, LCM is %d", resp.HistoryShardCount, L)
	}
	clientCluster, serverCluster := "2", "1"
	if direction == "outbound" {
		clientCluster, serverCluster = "1", "2"
	}
	for _, s := range shards {
		before := len(src.opens())
		md := metadata.Pairs(history.MetadataKeyClientClusterID, clientCluster, history.MetadataKeyClientShardID, "1",
			history.MetadataKeyServerClusterID, serverCluster, history.MetadataKeyServerShardID, strconv.Itoa(int(s)), "x-extra", "kept")
		ictx, icancel := context.WithCancel(metadata.NewIncomingContext(context.Background(), md))
		ss := fakes.NewServerSide(ictx, 2)
		done := make(chan error, 1)
		go func() {
			done <- h.StreamWorkflowReplicationMessages(ss)
			icancel()
		}()
		synctest.Wait()
		ops := src.opens()
		streams++
		valid := s >= 1 && int64(s) <= L
		if len(ops)-before != 1 {
			if valid {
				v("stream-not-forwarded-once", "LCM shard %d: %d outgoing streams, want exactly 1", s, len(ops)-before)
			}
		} else {
			o := ops[len(ops)-1]
			get := func(k string) string {
				if x := o.md.Get(k); len(x) == 1 {
					return x[0]
				}
				return fmt.Sprintf("%v", o.md.Get(k))
			}
			want := (int64(s)-1)%int64(serving) + 1
			if valid {
				if get(history.MetadataKeyServerShardID) != strconv.FormatInt(want, 10) {
					v("wrong-real-shard", "LCM shard %d forwarded to shard %s of the serving cluster (%d shards), want %d", s, get(history.MetadataKeyServerShardID), serving, want)
				}
				if get(history.MetadataKeyClientShardID) != strconv.Itoa(int(s)) {
					v("initiator-shard-not-passed-on", "LCM shard %d: initiator's shard id passed on as %s, want %d", s, get(history.MetadataKeyClientShardID), s)
				}
				if get(history.MetadataKeyClientClusterID) != clientCluster || get(history.MetadataKeyServerClusterID) != serverCluster {
					v("cluster-ids-changed", "LCM shard %d: cluster ids forwarded as client=%s server=%s", s, get(history.MetadataKeyClientClusterID), get(history.MetadataKeyServerClusterID))
				}
				if get("x-extra") != "kept" {
					v("other-metadata-lost", "LCM shard %d: unrelated metadata not passed on", s)
				}
				if sample == nil {
					sample = map[string]any{"local": local, "remote": remote, "direction": direction, "lcm": L, "lcm_shard": s, "forwarded_metadata": o.md}
				}
			}
			// ids outside 1..LCM are not in this property's domain (C20 covers hostile ids); they are
			// still driven through the handler here so that a panic would surface as a process death
		}
		icancel()
		for _, o := range src.opens()[before:] {
			o.cs.Finish(nil)
		}
		time.Sleep(2 * time.Second)
		synctest.Wait()
		select {
		case <-done:
		default:
			v("handler-stuck", "LCM shard %d: handler did not return after the initiator went away", s)
		}
	}
	// hash consistency: a workflow that hashes to LCM shard s lives on real shard mapped(s)
	for i := 0; i < hashSamples; i++ {
		ns, wf := fmt.Sprintf("ns-%d", rng.Int63()), fmt.Sprintf("wf-%x", rng.Int63())
		h32 := farm.Fingerprint32([]byte(ns + "_" + wf))
		s := int64(h32%uint32(L)) + 1
		real := int64(h32%uint32(serving)) + 1
		if (s-1)%int64(serving)+1 != real {
			v("hash-inconsistent", "workflow %s/%s: LCM shard %d maps to real shard %d but the workflow lives on %d", ns, wf, s, (s-1)%int64(serving)+1, real)
		}
	}
	return
}

func TestLCM(t *testing.T) {
	out := rec.Default()
	type blk struct {
		local, remote int32
		dir           string
		shards        []int32
		exhaustive    bool
	}
	var blocks []blk
	maxSmall := int32(12)
	if rec.Thorough() {
		maxSmall = 40
	}
	for a := int32(1); a <= maxSmall; a++ {
		for b := int32(1); b <= maxSmall; b++ {
			for _, d := range []string{"inbound", "outbound"} {
				L := int32(int64(a) * int64(b) / gcd64(int64(a), int64(b)))
				var sh []int32
				for s := int32(1); s <= L; s++ {
					sh = append(sh, s)
				}
				sh = append(sh, 0, -1, L+1, L+7) // just outside the range
				blocks = append(blocks, blk{a, b, d, sh, true})
			}
		}
	}
	rng := rand.New(rand.NewSource(rec.Seed()))
	boundary := func(a, b int32) []int32 {
		L := int32(int64(a) * int64(b) / gcd64(int64(a), int64(b)))
		cand := []int32{1, 2, a, a + 1, b, b + 1, L - 1, L}
		n := 12
		if rec.Thorough() {
			n = 400
		}
		for i := 0; i < n; i++ {
			cand = append(cand, 1+rng.Int31n(L))
		}
		var sh []int32
		for _, c := range cand {
			if c >= 1 && c <= L {
				sh = append(sh, c)
			}
		}
		return sh
	}
	for p := int32(1); p <= 16384; p *= 2 {
		for q := int32(1); q <= 16384; q *= 2 {
			if !rec.Thorough() && (p > 64 && q > 64 && p != q && p != 16384 && q != 16384) {
				continue
			}
			blocks = append(blocks, blk{p, q, []string{"inbound", "outbound"}[rng.Intn(2)], boundary(p, q), false})
		}
	}
	nComp := 60
	if rec.Thorough() {
		nComp = 6000
	}
	for i := 0; i < nComp; i++ {
		a, b := 1+rng.Int31n(16384), 1+rng.Int31n(16384)
		if i%3 == 0 { // related counts: small lcm
			g := 1 + rng.Int31n(64)
			a, b = g*(1+rng.Int31n(200)), g*(1+rng.Int31n(200))
		}
		// stay in the range where the stream observer's bookkeeping is defined (see C20): lcm < 2^27
		if int64(a)*int64(b)/gcd64(int64(a), int64(b)) > 1<<27 {
			a, b = 1+a%4096, 1+b%4096
		}
		blocks = append(blocks, blk{a, b, []string{"inbound", "outbound"}[i%2], boundary(a, b), false})
	}
	sampled := 0
	for idx, b := range blocks {
		name := fmt.Sprintf("lcm/%dx%d/%s", b.local, b.remote, b.dir)
		if !b.exhaustive {
			name += "/boundary"
		}
		if !rec.Want(idx, name) {
			continue
		}
		out.Begin(name, map[string]any{"local": b.local, "remote": b.remote, "direction": b.dir, "shard_ids": len(b.shards)})
		var viol []rec.Violation
		var streams int64
		var sample any
		t.Run("case", func(t *testing.T) {
			synctest.Test(t, func(t *testing.T) {
				viol, streams, sample = lcmBlock(b.local, b.remote, b.dir, b.shards, 400, rand.New(rand.NewSource(int64(idx)+rec.Seed())))
			})
		})
		l := rec.Line{Case: name, Viol: viol, Class: fmt.Sprintf("%d|%d|%s", b.local, b.remote, b.dir),
			Counts: map[string]int64{"pairs": 1, "streams": streams, "hash_samples": 400}}
		if b.exhaustive {
			l.Counts["exhaustive_blocks_completed"] = 1
		}
		if sampled < 2 && b.local > 2 && b.remote > 2 && b.local != b.remote {
			sampled++
			l.Sample = sample
		}
		out.End(l)
	}
}
