// Package fwdsim: the real pass-through stream handler (default and LCM modes) between an
// in-memory initiator and an in-memory source, in virtual time. Serves C06, C07 and C20.
package fwdsim

import (
	"context"
	"runtime"
	"sort"
	"strings"
	"sync"

	"go.temporal.io/server/api/adminservice/v1"
	"google.golang.org/grpc"
	"google.golang.org/grpc/metadata"

	"verifharness/fakes"
)

// fakeAdmin stands in for the cluster the handler forwards to.
type fakeAdmin struct {
	adminservice.AdminServiceClient // nil: any unexpected call panics
	mu       sync.Mutex
	opened   []*openRec
	window   int
	openErr  error
	shardCount int32
	onOpen   func(*openRec)
}

type openRec struct {
	md metadata.MD
	cs *fakes.ClientSide
}

func (f *fakeAdmin) StreamWorkflowReplicationMessages(ctx context.Context, _ ...grpc.CallOption) (adminservice.AdminService_StreamWorkflowReplicationMessagesClient, error) {
	f.mu.Lock()
	err := f.openErr
	f.mu.Unlock()
	if err != nil {
		return nil, err
	}
	md, _ := metadata.FromOutgoingContext(ctx)
	w := f.window
	if w <= 0 {
		w = 4
	}
	o := &openRec{md: md.Copy(), cs: fakes.NewClientSide(ctx, w)}
	f.mu.Lock()
	f.opened = append(f.opened, o)
	cb := f.onOpen
	f.mu.Unlock()
	if cb != nil {
		cb(o)
	}
	return o.cs, nil
}

func (f *fakeAdmin) DescribeCluster(ctx context.Context, in *adminservice.DescribeClusterRequest, _ ...grpc.CallOption) (*adminservice.DescribeClusterResponse, error) {
	return &adminservice.DescribeClusterResponse{ClusterName: "fake", ClusterId: "fake-id", HistoryShardCount: f.shardCount, FailoverVersionIncrement: 100, InitialFailoverVersion: 1, IsGlobalNamespaceEnabled: true}, nil
}

func (f *fakeAdmin) opens() []*openRec {
	f.mu.Lock()
	defer f.mu.Unlock()
	return append([]*openRec{}, f.opened...)
}

// census of goroutines that have a frame in the repository's code, keyed by top repo frame.
func census() map[string]int {
	buf := make([]byte, 1<<22)
	n := runtime.Stack(buf, true)
	out := map[string]int{}
	for _, g := range strings.Split(string(buf[:n]), "\n\n") {
		for _, ln := range strings.Split(g, "\n") {
			if strings.HasPrefix(ln, "github.com/temporalio/s2s-proxy/") {
				fn := ln
				if i := strings.LastIndex(fn, "("); i > 0 {
					fn = fn[:i]
				}
				out[fn]++
				break
			}
		}
	}
	return out
}

func censusDiff(base, now map[string]int) []string {
	var out []string
	for k, v := range now {
		if v > base[k] {
			out = append(out, k)
		}
	}
	sort.Strings(out)
	return out
}
