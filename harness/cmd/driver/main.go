// driver: builds one engine against the repository's current working tree, runs it in
// child processes, merges the per-case lines into an evidence file, matches violation
// signatures against known_findings.txt and sets the exit code.
//
//	driver <Cxx> quick|thorough
//	driver <Cxx> replay <file>
package main

import (
	"bufio"
	"bytes"
	"crypto/sha1"
	"encoding/json"
	"fmt"
	"io"
	"os"
	"os/exec"
	"path/filepath"
	"regexp"
	"sort"
	"strconv"
	"strings"
	"sync"
	"time"

	"verifharness/rec"
)

var (
	verifDir = envOr("VERIF_DIR", "/verif")
	repoDir  = envOr("VERIF_REPO", "/repo")
	goBin    = envOr("VERIF_GO", "go1.26")
)

func envOr(k, d string) string {
	if v := os.Getenv(k); v != "" {
		return v
	}
	return d
}

func main() {
	if len(os.Args) >= 2 && os.Args[1] == "--prime" {
		os.Exit(prime())
	}
	if len(os.Args) >= 2 && os.Args[1] == "--manifest" {
		os.Exit(writeManifest())
	}
	if len(os.Args) < 3 {
		fmt.Fprintln(os.Stderr, "usage: driver <Cxx> quick|thorough | driver <Cxx> replay <file>")
		os.Exit(2)
	}
	prop, mode := os.Args[1], os.Args[2]
	spec, ok := specs[prop]
	if !ok {
		fmt.Fprintf(os.Stderr, "unknown property %s\n", prop)
		os.Exit(2)
	}
	spec.ID = prop
	switch mode {
	case "quick", "thorough":
		privateBuild = true
		sweepStaleBins()
		rc := runCheck(spec, mode)
		cleanupBins()
		os.Exit(rc)
	case "replay":
		if len(os.Args) < 4 {
			fmt.Fprintln(os.Stderr, "replay needs a file")
			os.Exit(2)
		}
		privateBuild = true
		rc := runReplay(spec, os.Args[3])
		cleanupBins()
		os.Exit(rc)
	default:
		fmt.Fprintf(os.Stderr, "unknown mode %s\n", mode)
		os.Exit(2)
	}
}

// ---------------------------------------------------------------------------------------
// build

func goEnv() []string {
	env := os.Environ()
	env = append(env, "GOFLAGS=-mod=mod", "GOPROXY=off", "GOSUMDB=off", "GOTOOLCHAIN=local")
	return env
}

func buildDir() string {
	d := filepath.Join(verifDir, ".build")
	os.MkdirAll(d, 0o755)
	return d
}

// modfileArgs returns -modfile=… when VERIF_REPO points somewhere other than /repo.
func modfileArgs() []string {
	if repoDir == "/repo" {
		return nil
	}
	src, err := os.ReadFile(filepath.Join(verifDir, "harness", "go.mod"))
	if err != nil {
		fatal("read go.mod: %v", err)
	}
	alt := strings.Replace(string(src), "=> /repo", "=> "+repoDir, 1)
	h := fmt.Sprintf("%x", sha1.Sum([]byte(repoDir)))[:8]
	p := filepath.Join(buildDir(), "alt-"+h+".mod")
	os.WriteFile(p, []byte(alt), 0o644)
	sum, _ := os.ReadFile(filepath.Join(verifDir, "harness", "go.sum"))
	os.WriteFile(strings.TrimSuffix(p, ".mod")+".sum", sum, 0o644)
	return []string{"-modfile=" + p}
}

func overlayArgs() []string {
	shim := filepath.Join(verifDir, "harness", "shim", "proxy_verif_export.go.src")
	if _, err := os.Stat(shim); err != nil {
		return nil
	}
	// If the repository carries the hook file itself, do not overlay.
	target := filepath.Join(repoDir, "proxy", "verif_export.go")
	if _, err := os.Stat(target); err == nil {
		return nil
	}
	h := fmt.Sprintf("%x", sha1.Sum([]byte(repoDir)))[:8]
	p := filepath.Join(buildDir(), "overlay-"+h+".json")
	b, _ := json.Marshal(map[string]any{"Replace": map[string]string{target: shim}})
	os.WriteFile(p, b, 0o644)
	return []string{"-overlay=" + p}
}

// privateBuild: a check links its own copy of the engine (name.<pid>.test, removed at exit), so that a second
// run started meanwhile - another check, another tier, a development script working on a modified tree - can
// never replace the binary this run's children are (re)started from. The Go build cache makes the extra link cheap.
var (
	privateBuild bool
	privateBins  []string
)

// stale private binaries of runs that were killed before they could clean up
func sweepStaleBins() {
	files, _ := filepath.Glob(filepath.Join(buildDir(), "*.test"))
	for _, f := range files {
		base := strings.TrimSuffix(filepath.Base(f), ".test")
		i := strings.LastIndexByte(base, '.')
		if i < 0 {
			continue
		}
		if _, err := strconv.Atoi(base[i+1:]); err != nil {
			continue
		}
		if st, err := os.Stat(f); err == nil && time.Since(st.ModTime()) > 3*time.Hour {
			os.Remove(f)
		}
	}
}

func cleanupBins() {
	for _, b := range privateBins {
		os.Remove(b)
	}
}

func build(spec Spec) (string, error) {
	name := strings.ReplaceAll(spec.Engine, "/", "_")
	if spec.Race {
		name += ".race"
	}
	if repoDir != "/repo" {
		name += "." + fmt.Sprintf("%x", sha1.Sum([]byte(repoDir)))[:8]
	}
	if privateBuild {
		name += fmt.Sprintf(".%d", os.Getpid())
	}
	bin := filepath.Join(buildDir(), name+".test")
	if privateBuild {
		privateBins = append(privateBins, bin)
	}
	args := []string{"test", "-c", "-tags", "verif", "-vet=off", "-o", bin}
	if spec.Race {
		args = append(args, "-race")
	}
	args = append(args, modfileArgs()...)
	args = append(args, overlayArgs()...)
	args = append(args, "./"+spec.Engine)
	cmd := exec.Command(goBin, args...)
	cmd.Dir = filepath.Join(verifDir, "harness")
	cmd.Env = goEnv()
	var buf bytes.Buffer
	cmd.Stdout, cmd.Stderr = &buf, &buf
	if err := cmd.Run(); err != nil {
		return "", fmt.Errorf("build failed: %v\n%s", err, buf.String())
	}
	return bin, nil
}

// ---------------------------------------------------------------------------------------
// running children

type childOut struct {
	idx     int
	lines   []rec.Line
	exitErr error
	log     string
	outPath string
	deaths  []death
}

func runChildren(spec Spec, bin, tier string, seed int64, n int, watchdog time.Duration, only string, logDir string) []childOut {
	res := make([]childOut, n)
	var wg sync.WaitGroup
	deadline := time.Now().Add(watchdog)
	for i := 0; i < n; i++ {
		wg.Add(1)
		go func(i int) {
			defer wg.Done()
			outPath := filepath.Join(logDir, fmt.Sprintf("cases.%d.jsonl", i))
			os.Remove(outPath)
			co := childOut{idx: i, outPath: outPath}
			resume := ""
			for attempt := 0; attempt < 12; attempt++ {
				logPath := filepath.Join(logDir, fmt.Sprintf("child.%d.%d.log", i, attempt))
				left := int(time.Until(deadline).Seconds())
				if left < 5 {
					break
				}
				script := fmt.Sprintf("ulimit -v %d; exec timeout -s QUIT -k 20 %d %s -test.run '%s' -test.timeout 0 -test.v >%s 2>&1",
					spec.memKB(), left, shellQuote(bin), spec.Run, shellQuote(logPath))
				cmd := exec.Command("bash", "-c", script)
				cmd.Dir = filepath.Join(verifDir, "harness", spec.Engine)
				env := goEnv()
				env = append(env,
					"VERIF_PROP="+spec.ID, "VERIF_TIER="+tier, "VERIF_SEED="+strconv.FormatInt(seed, 10),
					fmt.Sprintf("VERIF_SHARD=%d/%d", i, n), "VERIF_OUT="+outPath, "VERIF_ONLY="+only,
					"VERIF_REPO="+repoDir, "VERIF_DIR="+verifDir, "VERIF_LOGDIR="+logDir, "VERIF_RESUME_AFTER="+resume,
					"GOTRACEBACK=all",
				)
				if ct := spec.CaseTimeoutS; ct > 0 || tier == "thorough" {
					if tier == "thorough" && ct < 400 {
						ct = 400 // thorough scenarios are larger (up to 30x30 shards under -race): fewer watchdog inconclusives on a busy machine
					}
					env = append(env, fmt.Sprintf("VERIF_CASE_TIMEOUT=%d", ct))
				}
				if spec.Race {
					env = append(env, fmt.Sprintf("GORACE=halt_on_error=0 log_path=%s", filepath.Join(logDir, fmt.Sprintf("race.%d.%d", i, attempt))))
				}
				if len(spec.MaxProcs) > 0 {
					env = append(env, fmt.Sprintf("GOMAXPROCS=%d", spec.MaxProcs[i%len(spec.MaxProcs)]))
				}
				cmd.Env = env
				err := cmd.Run()
				co.exitErr = err
				co.log = logPath
				lines := readLines(outPath)
				// find a case left open by this attempt
				open := ""
				opened := map[string]bool{}
				for _, l := range lines {
					if l.T == "begin" {
						opened[l.Case] = true
						open = l.Case
					} else if l.T == "end" && l.Case == open {
						open = ""
					}
				}
				co.lines = lines
				if open == "" {
					break
				}
				// attribute the death of this attempt to the open case, then resume after it
				code := -1
				if ee, ok := err.(*exec.ExitError); ok {
					code = ee.ExitCode()
				}
				co.deaths = append(co.deaths, death{caseName: open, log: logPath, exitCode: code, timedOut: code == 124 || code == 137 || code == 97})
				resume = open
				if only != "" {
					break
				}
			}
			res[i] = co
		}(i)
	}
	wg.Wait()
	return res
}

type death struct {
	caseName string
	log      string
	exitCode int
	timedOut bool
}

func shellQuote(s string) string { return "'" + strings.ReplaceAll(s, "'", `'\''`) + "'" }

func readLines(p string) []rec.Line {
	f, err := os.Open(p)
	if err != nil {
		return nil
	}
	defer f.Close()
	var out []rec.Line
	sc := bufio.NewScanner(f)
	sc.Buffer(make([]byte, 1<<20), 256<<20)
	for sc.Scan() {
		var l rec.Line
		if json.Unmarshal(sc.Bytes(), &l) == nil {
			out = append(out, l)
		}
	}
	return out
}

// ---------------------------------------------------------------------------------------
// known findings

type finding struct {
	status string // open|fixed
	prop   string
	id     string
	sig    *regexp.Regexp
	what   string
}

// known_findings.txt, one entry per line:
//
//	open: property=C04 id=F-C04a sig=<regexp> :: <what fails>
//	fixed: property=C01 <commit> <what failed>
func loadFindings() []finding {
	b, err := os.ReadFile(filepath.Join(verifDir, "known_findings.txt"))
	if err != nil {
		return nil
	}
	var out []finding
	for _, ln := range strings.Split(string(b), "\n") {
		ln = strings.TrimSpace(ln)
		if !strings.HasPrefix(ln, "open:") {
			continue // fixed entries suppress nothing
		}
		head, what, _ := strings.Cut(strings.TrimSpace(strings.TrimPrefix(ln, "open:")), " :: ")
		f := finding{status: "open", what: what}
		for _, kv := range strings.Fields(head) {
			k, v, _ := strings.Cut(kv, "=")
			switch k {
			case "property":
				f.prop = v
			case "id":
				f.id = v
			case "sig":
				re, err := regexp.Compile("^(?:" + v + ")$")
				if err != nil {
					fatal("known_findings.txt: bad regexp %q: %v", v, err)
				}
				f.sig = re
			}
		}
		if f.prop != "" && f.sig != nil {
			out = append(out, f)
		}
	}
	return out
}

// ---------------------------------------------------------------------------------------
// check

type violRec struct {
	Case string        `json:"case"`
	V    rec.Violation `json:"violation"`
	Desc any           `json:"desc,omitempty"`
}

func runCheck(spec Spec, tier string) int {
	t0 := time.Now()
	seed := rec.Seed()
	// VERIF_EVIDENCE_DIR: development scripts that run checks against a deliberately broken tree
	// (try_seed.sh, kill_matrix.sh) write their evidence elsewhere so that /verif/evidence only ever
	// holds what the checks observed on /repo itself
	evDir := envOr("VERIF_EVIDENCE_DIR", filepath.Join(verifDir, "evidence"))
	logDir := filepath.Join(evDir, "logs", spec.ID+"-"+tier)
	os.RemoveAll(logDir)
	os.MkdirAll(logDir, 0o755)
	evPath := filepath.Join(evDir, spec.ID+".json")

	bin, err := build(spec)
	if err != nil {
		// A tree that does not compile with the harness cannot be judged: not a violation
		// line, but a hard failure of the check.
		fmt.Println(err)
		fmt.Printf("CHECK-ERROR property=%s could not build engine %s\n", spec.ID, spec.Engine)
		return 2
	}
	n, wd := spec.QuickShards, spec.QuickWatchdog
	if tier == "thorough" {
		n, wd = spec.ThoroughShards, spec.ThoroughWatchdog
	}
	if n == 0 {
		n = 1
	}
	if wd == 0 {
		wd = 10 * time.Minute
	}
	children := runChildren(spec, bin, tier, seed, n, wd, "", logDir)
	if spec.ExtraRun != "" {
		x := spec
		x.Run, x.Race = spec.ExtraRun, spec.ExtraRace
		if spec.ExtraEngine != "" {
			x.Engine = spec.ExtraEngine
		}
		xbin, err := build(x)
		if err != nil {
			fmt.Println(err)
			fmt.Printf("CHECK-ERROR property=%s could not build engine %s (extra pass)\n", spec.ID, spec.Engine)
			return 2
		}
		xdir := filepath.Join(logDir, "extra")
		os.MkdirAll(xdir, 0o755)
		xn := spec.ExtraShards
		if xn == 0 {
			xn = n
		}
		children = append(children, runChildren(x, xbin, tier, seed, xn, wd, "", xdir)...)
		spec.Race = spec.Race || spec.ExtraRace
	}
	agg := aggregate(spec, children, logDir)

	findings := loadFindings()
	replayDir := filepath.Join(evDir, "replay")
	os.MkdirAll(replayDir, 0o755)
	// classify
	knownSeen := map[string]int{}
	knownWhat := map[string]string{}
	type newViol struct {
		v      violRec
		replay string
	}
	var fresh []newViol
	freshSigs := map[string]bool{}
	for _, v := range agg.viol {
		matched := false
		for _, f := range findings {
			if f.prop == spec.ID && f.sig.MatchString(v.V.Sig) {
				knownSeen[f.id]++
				knownWhat[f.id] = f.what
				matched = true
				break
			}
		}
		if matched {
			continue
		}
		if freshSigs[v.V.Sig] && len(fresh) >= 20 {
			continue
		}
		freshSigs[v.V.Sig] = true
		rp := filepath.Join(replayDir, fmt.Sprintf("%s-%s.json", spec.ID, rec.Hash(v.Case, v.V.Sig)))
		b, _ := json.MarshalIndent(map[string]any{"property": spec.ID, "tier": tier, "seed": seed, "case": v.Case, "desc": v.Desc, "violation": v.V}, "", " ")
		os.WriteFile(rp, b, 0o644)
		fresh = append(fresh, newViol{v, rp})
	}

	// floors: a run that observed too little decided nothing
	var floorFail []string
	for k, min := range spec.floors(tier) {
		if agg.counts[k] < min {
			floorFail = append(floorFail, fmt.Sprintf("%s=%d<%d", k, agg.counts[k], min))
		}
	}
	sort.Strings(floorFail)

	wall := time.Since(t0).Seconds()
	writeEvidence(spec, tier, seed, evPath, agg, wall, len(fresh), knownSeen, floorFail)

	ids := make([]string, 0, len(knownSeen))
	for id := range knownSeen {
		ids = append(ids, id)
	}
	sort.Strings(ids)
	for _, id := range ids {
		fmt.Printf("KNOWN-FINDING: property=%s %s: %s (seen in %d cases)\n", spec.ID, id, knownWhat[id], knownSeen[id])
	}
	fmt.Printf("%s %s seed=%d: %d cases (%d non-trivial classes), %d held, %d inconclusive, %d violating observations (%d new), %.1fs\n",
		spec.ID, tier, seed, agg.evals, len(agg.classes), agg.held, agg.inconclusive, len(agg.viol), len(fresh), wall)
	keys := make([]string, 0, len(agg.counts))
	for k := range agg.counts {
		keys = append(keys, k)
	}
	sort.Strings(keys)
	var sb strings.Builder
	for _, k := range keys {
		fmt.Fprintf(&sb, " %s=%d", k, agg.counts[k])
	}
	fmt.Printf("%s observed:%s\n", spec.ID, sb.String())
	if len(fresh) > 0 {
		shown := map[string]bool{}
		for _, f := range fresh {
			if shown[f.v.V.Sig] {
				continue
			}
			shown[f.v.V.Sig] = true
			fmt.Printf("VIOLATION property=%s replay=%s\n", spec.ID, f.replay)
			fmt.Printf("  case=%s sig=%s\n  %s\n", f.v.Case, f.v.V.Sig, f.v.V.What)
		}
		return 1
	}
	if len(floorFail) > 0 || agg.evals == 0 {
		fmt.Printf("CHECK-ERROR property=%s observed too little to decide anything: %v (see %s)\n", spec.ID, floorFail, logDir)
		return 2
	}
	return 0
}

type aggT struct {
	evals, held, inconclusive int
	classes                   map[string]bool
	counts                    map[string]int64
	samples                   []any
	viol                      []violRec
	inconcWhy                 map[string]int
	notes                     []string
	raceObserved              map[string]int
	fallbackSamples           []any
}

func aggregate(spec Spec, children []childOut, logDir string) aggT {
	a := aggT{classes: map[string]bool{}, counts: map[string]int64{}, inconcWhy: map[string]int{}, raceObserved: map[string]int{}}
	for _, c := range children {
		open := map[string]rec.Line{}
		var order []string
		for _, l := range c.lines {
			switch l.T {
			case "begin":
				open[l.Case] = l
				order = append(order, l.Case)
				_ = order
			case "note":
				if len(a.notes) < 50 {
					a.notes = append(a.notes, l.Note)
				}
			case "end":
				b := open[l.Case]
				delete(open, l.Case)
				a.evals++
				if len(a.fallbackSamples) < 2 {
					a.fallbackSamples = append(a.fallbackSamples, map[string]any{"case": l.Case, "descriptor": b.Desc, "counts": l.Counts})
				}
				for k, v := range l.Counts {
					if strings.HasPrefix(k, "max_") {
						if v > a.counts[k] {
							a.counts[k] = v
						}
						continue
					}
					a.counts[k] += v
				}
				if l.Class != "" {
					a.classes[l.Class] = true
				}
				for _, c := range l.Classes {
					a.classes[c] = true
				}
				if l.Sample != nil && len(a.samples) < spec.maxSamples() {
					a.samples = append(a.samples, l.Sample)
				}
				switch l.Verdict {
				case rec.Held:
					a.held++
				case rec.Inconclusive:
					a.inconclusive++
					a.inconcWhy[l.Why]++
				}
				for _, v := range l.Viol {
					if v.Prop != spec.ID {
						a.counts["other_property_observations"]++
						continue
					}
					a.viol = append(a.viol, violRec{Case: l.Case, V: v, Desc: b.Desc})
				}
			}
		}
		// a begun case without an end: the child died (or was killed) while running it
		for _, d := range c.deaths {
			b := open[d.caseName]
			a.evals++
			logTxt := tailFile(d.log, 4000000)
			if !rePanic.MatchString(logTxt) {
				// the panic line precedes the goroutine dump, which can be longer than the tail read above
				if head := headFile(d.log, 64<<20); rePanic.MatchString(head) || strings.Contains(head, "SIGSEGV: segmentation violation") {
					logTxt = head
				}
			}
			kind, detail := classifyDeath(logTxt, d.timedOut)
			if kind == "toolchain-crash" {
				a.inconclusive++
				a.inconcWhy[detail]++
				continue
			}
			if kind == "unknown" {
				// no Go panic, no fatal error, no watchdog: the process was killed from outside or the runtime died
				// without a word. A crash caused by the code under test always announces itself (panic / fatal error).
				a.inconclusive++
				a.inconcWhy[fmt.Sprintf("child process ended without a Go panic or fatal error (exit code %d)", d.exitCode)]++
				continue
			}
			if d.timedOut && !strings.Contains(kind, "panic") && !strings.Contains(kind, "fatal error") {
				if !spec.hangIsViolation(logTxt) {
					a.inconclusive++
					a.inconcWhy["watchdog: "+detail]++
					continue
				}
				kind = "hang:" + spec.HangViolation.FindString(logTxt)
			}
			a.viol = append(a.viol, violRec{Case: d.caseName, Desc: b.Desc, V: rec.Violation{
				Prop: spec.ID, Sig: "process-death:" + kind,
				What:    fmt.Sprintf("child process died while running case %s: %s (log %s)", d.caseName, detail, d.log),
				Witness: map[string]any{"log_tail": lastLines(logTxt, 60)},
			}})
		}
		if len(order) == 0 && len(c.lines) == 0 && c.exitErr != nil {
			a.notes = append(a.notes, fmt.Sprintf("child %d produced no lines (exit %v); log %s: %s", c.idx, c.exitErr, c.log, lastLines(tailFile(c.log, 4000), 10)))
			a.inconclusive++
			a.inconcWhy["child produced nothing"]++
		}
	}
	// race reports
	if spec.Race {
		files, _ := filepath.Glob(filepath.Join(logDir, "race.*"))
		more, _ := filepath.Glob(filepath.Join(logDir, "extra", "race.*"))
		files = append(files, more...)
		_ = files
		for _, f := range files {
			b, _ := os.ReadFile(f)
			for _, blk := range splitRaceBlocks(string(b)) {
				sig := raceSig(blk)
				a.counts["race_reports"]++
				subject := blk
				if spec.RaceOnTopFrames {
					subject = sig
				}
				if spec.RaceViolation != nil && spec.RaceViolation.MatchString(subject) {
					a.viol = append(a.viol, violRec{Case: "race-detector", V: rec.Violation{
						Prop: spec.ID, Sig: "race:" + sig, What: "data race on state the property anchors: " + sig,
						Witness: map[string]any{"report": lastLines(blk, 80)},
					}})
				} else {
					a.raceObserved[sig]++
				}
			}
		}
	}
	return a
}

func headFile(p string, n int64) string {
	f, err := os.Open(p)
	if err != nil {
		return ""
	}
	defer f.Close()
	b, _ := io.ReadAll(io.LimitReader(f, n))
	return string(b)
}

func tailFile(p string, n int64) string {
	f, err := os.Open(p)
	if err != nil {
		return ""
	}
	defer f.Close()
	st, _ := f.Stat()
	off := st.Size() - n
	if off < 0 {
		off = 0
	}
	b := make([]byte, st.Size()-off)
	f.ReadAt(b, off)
	return string(b)
}

func lastLines(s string, n int) string {
	l := strings.Split(strings.TrimRight(s, "\n"), "\n")
	if len(l) > n {
		l = l[len(l)-n:]
	}
	return strings.Join(l, "\n")
}

var (
	rePanic = regexp.MustCompile(`(?m)^(panic: .*|fatal error: .*)$`)
)

func classifyDeath(logTxt string, timedOut bool) (kind, detail string) {
	if m := rePanic.FindString(logTxt); m != "" {
		k := m
		if i := strings.Index(k, ":"); i > 0 && strings.HasPrefix(k, "fatal error") {
			k = strings.TrimSpace(k)
		}
		// normalise addresses / numbers out of the kind
		k = regexp.MustCompile(`0x[0-9a-f]+|\d+`).ReplaceAllString(k, "N")
		if len(k) > 120 {
			k = k[:120]
		}
		return k, m
	}
	// A fatal signal raised inside the Go runtime itself (on the system stack, the running goroutine's top
	// frames all in package runtime) is a crash of the toolchain, not of the code under test: seen once in
	// 135k virtual-time cases as SIGSEGV in runtime.(*timer).maybeRunChan (go1.26.8, synctest bubble, -race).
	if i := strings.Index(logTxt, "SIGSEGV: segmentation violation\nPC="); i >= 0 {
		if m := reRunningGoroutine.FindStringSubmatch(logTxt[i:]); m != nil && strings.HasPrefix(m[1], "runtime.") {
			return "toolchain-crash", "fatal signal inside the Go runtime (" + m[1] + " / " + m[2] + "), not in the code under test"
		}
	}
	if timedOut {
		return "watchdog", "watchdog expired (goroutine dump in log)"
	}
	return "unknown", "no panic line found"
}

// first two frames of the goroutine that was running when a fatal signal arrived
var reRunningGoroutine = regexp.MustCompile(`(?m)^goroutine \d+ [^\n]*\[running[^\n]*\]:\n(\S+?)\([^\n]*\n[^\n]*\n(\S+?)\(`)

func splitRaceBlocks(s string) []string {
	var out []string
	for _, p := range strings.Split(s, "==================") {
		if strings.Contains(p, "WARNING: DATA RACE") {
			out = append(out, p)
		}
	}
	return out
}

var reFrame = regexp.MustCompile(`(?m)^  (\S+)\(`)

// raceSig: the first non-runtime frame of each of the two accesses, sorted.
func raceSig(blk string) string {
	parts := regexp.MustCompile(`(?m)^(?:Write|Read|Previous write|Previous read|Atomic[^\n]*) (?:at|of)[^\n]*\n`).Split(blk, -1)
	var tops []string
	for _, p := range parts[1:] {
		for _, m := range reFrame.FindAllStringSubmatch(p, -1) {
			fn := m[1]
			if strings.HasPrefix(fn, "runtime.") || strings.HasPrefix(fn, "internal/") {
				continue
			}
			tops = append(tops, fn)
			break
		}
		if len(tops) == 2 {
			break
		}
	}
	sort.Strings(tops)
	return strings.Join(tops, " <-> ")
}

func writeEvidence(spec Spec, tier string, seed int64, path string, a aggT, wall float64, fresh int, known map[string]int, floorFail []string) {
	samples := a.samples
	if len(samples) == 0 {
		// no engine-provided sample: fall back to the descriptors of the first cases run
		samples = a.fallbackSamples
	}
	if len(samples) == 0 {
		samples = []any{}
	}
	cov := map[string]any{
		"evaluations":         a.evals,
		"distinct_nontrivial": len(a.classes),
		"rule":                spec.Rule,
		"samples":             samples,
		"observed":            a.counts,
		"held":                a.held,
		"inconclusive":        a.inconclusive,
	}
	if len(a.inconcWhy) > 0 {
		cov["inconclusive_reasons"] = a.inconcWhy
	}
	if spec.Exhaustive != "" {
		cov["exhaustive"] = a.counts["exhaustive_blocks_completed"] > 0
		cov["exhaustive_scope"] = spec.Exhaustive
	}
	if len(known) > 0 {
		cov["known_findings_reproduced"] = known
	}
	if len(a.raceObserved) > 0 {
		cov["race_reports_not_property_relevant"] = a.raceObserved
	}
	if len(floorFail) > 0 {
		cov["floor_failures"] = floorFail
	}
	if len(a.notes) > 0 {
		cov["notes"] = a.notes
	}
	if len(a.viol) > 0 {
		vs := a.viol
		if len(vs) > 10 {
			vs = vs[:10]
		}
		cov["violating_observations_sample"] = vs
	}
	ev := map[string]any{
		"property_id": spec.ID, "tier": tier, "seed": seed, "level": spec.Level,
		"coverage": cov, "assumptions": spec.Assumptions, "wall_s": wall, "violations": fresh,
	}
	b, _ := json.MarshalIndent(ev, "", " ")
	os.MkdirAll(filepath.Dir(path), 0o755)
	os.WriteFile(path, append(b, '\n'), 0o644)
}

func runReplay(spec Spec, file string) int {
	b, err := os.ReadFile(file)
	if err != nil {
		fatal("%v", err)
	}
	var r struct {
		Tier string
		Seed int64
		Case string
	}
	if err := json.Unmarshal(b, &r); err != nil {
		fatal("%v", err)
	}
	bin, err := build(spec)
	if err != nil {
		fmt.Println(err)
		return 2
	}
	logDir := filepath.Join(verifDir, "evidence", "logs", spec.ID+"-replay")
	os.RemoveAll(logDir)
	os.MkdirAll(logDir, 0o755)
	os.Setenv("VERIF_SEED", strconv.FormatInt(r.Seed, 10))
	ch := runChildren(spec, bin, r.Tier, r.Seed, 1, 10*time.Minute, r.Case, logDir)
	a := aggregate(spec, ch, logDir)
	for _, v := range a.viol {
		j, _ := json.MarshalIndent(v, "", " ")
		fmt.Println(string(j))
	}
	fmt.Printf("replay %s case=%s: %d cases run, %d violating observations\n", spec.ID, r.Case, a.evals, len(a.viol))
	if len(a.viol) > 0 {
		fmt.Printf("VIOLATION property=%s replay=%s\n", spec.ID, file)
		return 1
	}
	return 0
}

func fatal(f string, a ...any) {
	fmt.Fprintf(os.Stderr, f+"\n", a...)
	os.Exit(2)
}

// prime builds every engine once (sequentially; the Go build itself is parallel).
func prime() int {
	seen := map[string]bool{}
	ids := make([]string, 0, len(specs))
	for id := range specs {
		ids = append(ids, id)
	}
	sort.Strings(ids)
	rc := 0
	for _, id := range ids {
		sp := specs[id]
		key := fmt.Sprintf("%s/%v", sp.Engine, sp.Race)
		if seen[key] {
			continue
		}
		seen[key] = true
		t0 := time.Now()
		if _, err := build(sp); err != nil {
			fmt.Println(err)
			rc = 1
			continue
		}
		fmt.Printf("primed %s race=%v in %.0fs\n", sp.Engine, sp.Race, time.Since(t0).Seconds())
	}
	return rc
}
