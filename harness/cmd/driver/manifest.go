package main

import (
	"encoding/json"
	"fmt"
	"os"
	"path/filepath"
	"sort"
)

// writeManifest regenerates /verif/MANIFEST.json from the spec table so that the two cannot drift.
func writeManifest() int {
	ids := make([]string, 0, len(specs))
	for id := range specs {
		ids = append(ids, id)
	}
	sort.Strings(ids)
	var checks []map[string]any
	engines := map[string][]string{}
	for _, id := range ids {
		sp := specs[id]
		engines[sp.Engine] = append(engines[sp.Engine], id)
		checks = append(checks, map[string]any{
			"property_id":         id,
			"quick_cmd":           "./run " + id + " quick",
			"thorough_cmd":        "./run " + id + " thorough",
			"evidence_file":       "/verif/evidence/" + id + ".json",
			"replay_cmd_template": "./run " + id + " replay {path}",
			"engine":              sp.Engine,
			"level_claimed":       map[string]any{"category": sp.Level, "text": sp.LevelText, "design_ref": sp.DesignRef},
			"level_note":          sp.LevelNote,
			"technique":           sp.Technique,
		})
	}
	var engs []map[string]any
	en := make([]string, 0, len(engines))
	for e := range engines {
		en = append(en, e)
	}
	sort.Strings(en)
	for _, e := range en {
		engs = append(engs, map[string]any{"name": e, "path": "/verif/harness/" + e, "serves_properties": engines[e], "kind_free_text": engineKinds[e]})
	}
	var na []map[string]any
	for _, id := range allProps {
		if _, ok := specs[id]; !ok {
			r := notApplicable[id]
			if r == "" {
				r = "no check registered yet (engine under construction); not claimed"
			}
			na = append(na, map[string]any{"property_id": id, "reason": r})
		}
	}
	m := map[string]any{
		"version":   1,
		"setup_cmd": "./setup.sh",
		"hooks": map[string]any{
			"guard":            "verif",
			"enable":           "go1.26 test -tags verif -overlay <generated: /repo/proxy/verif_export.go -> /verif/harness/shim/proxy_verif_export.go.src>; the only hook is an export shim injected at build time, /repo carries no hook commit",
			"baseline_off_cmd": "./baseline.sh",
			"source_commits":   []string{},
			"add_only":         true,
		},
		"engines": engs,
		"checks":  checks,
		"notes":   "Runtime monitoring: every check builds its engine against /repo's working tree (tag verif + overlay shim), runs generated/hostile/fault-injected workloads of the real code in child processes and decides with oracles over recorded events. Known findings: /verif/known_findings.txt. See DESIGN.md.",
	}
	// always present: every one of the 20 properties is claimed, so the list is empty (parts of statements
	// that this family cannot decide - unbounded "eventually" - are restated as bounded progress, DESIGN.md §7)
	if na == nil {
		na = []map[string]any{}
	}
	m["not_applicable"] = na
	b, _ := json.MarshalIndent(m, "", " ")
	if err := os.WriteFile(filepath.Join(verifDir, "MANIFEST.json"), append(b, '\n'), 0o644); err != nil {
		fmt.Println(err)
		return 1
	}
	fmt.Printf("MANIFEST.json written: %d checks, %d not claimed\n", len(checks), len(na))
	return 0
}

var allProps = []string{"C01", "C02", "C03", "C04", "C05", "C06", "C07", "C08", "C09", "C10", "C11", "C12", "C13", "C14", "C15", "C16", "C17", "C18", "C19", "C20"}

var notApplicable = map[string]string{}

var engineKinds = map[string]string{
	"routesim":  "real routing-mode stream handlers + shard manager between fake Temporal shards, in-memory gRPC-semantics streams, virtual time (testing/synctest), probe logger, online trace oracles",
	"fwdsim":    "real pass-through stream handler (default/LCM modes) and stream-open metadata handling between in-memory peers, virtual time, goroutine census",
	"xlate":     "real namespace / search-attribute translators and access-control interceptor on descriptor-enumerated and random messages vs an independent protoreflect oracle",
	"utf8":      "real RepairUTF8Codec and blob-repair path on wire bytes generated from the legacy gogo schema by reflection, vs the standard codec on a sanitised twin",
	"tlsmatrix": "real TLS configurations (server/client, raw and inside the real mux receiver/establisher) in real handshakes against an in-process PKI",
	"muxsim":    "real mux provider / multi-mux manager / managed sessions over net.Pipe with a scripted connection provider, virtual time",
	"gossip":    "real shard managers + memberlist delegates with the harness as the gossip network (delivery permutations, duplicates, merges, leaves); routing-result probes",
	"wire":      "assembled proxies (NewClusterConnection) on loopback TCP / yamux between recording fake clusters; real interceptor chain and codec",
	"ringmodel": "real ring buffer vs reference model, exhaustive-bounded + random operation sequences",
}
