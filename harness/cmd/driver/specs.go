package main

import (
	"regexp"
	"strings"
	"time"
)

type Spec struct {
	ID               string
	Engine           string // package directory under harness/
	Run              string // -test.run regexp
	Race             bool
	RaceViolation    *regexp.Regexp // a race report matching this is a violation (see DESIGN §2.6)
	RaceOnTopFrames  bool           // match RaceViolation against the two accessing functions only, not against callers further up
	QuickShards      int
	ThoroughShards   int
	QuickWatchdog    time.Duration
	ThoroughWatchdog time.Duration
	MaxProcs         []int
	MemGB            int
	Level            string
	Rule             string
	Exhaustive       string
	Assumptions      []string
	QuickFloors      map[string]int64 // minimum observations below which a run decides nothing (CHECK-ERROR); set so that any single case may end inconclusive without tripping them
	ThoroughFloors   map[string]int64
	HangViolation    *regexp.Regexp // watchdog dump matching this is a violation, else inconclusive
	MaxSamples       int
	CaseTimeoutS     int
	// Extra: an additional pass of the same engine with its own -test.run and race setting
	// (e.g. a concurrency test that needs -race next to a memory-heavy test that must not have it).
	ExtraRun    string
	ExtraRace   bool
	ExtraShards int
	ExtraEngine string // engine of the extra pass when it differs from Engine
	LevelText   string
	LevelNote   string
	Technique   string
	DesignRef   string
}

func (s Spec) memKB() int {
	g := s.MemGB
	if g == 0 {
		g = 24
	}
	return g * 1024 * 1024
}
func (s Spec) maxSamples() int {
	if s.MaxSamples > 0 {
		return s.MaxSamples
	}
	return 3
}
func (s Spec) floors(tier string) map[string]int64 {
	if tier == "thorough" && s.ThoroughFloors != nil {
		return s.ThoroughFloors
	}
	return s.QuickFloors
}
// hangIsViolation decides whether the goroutine dump written by the per-case watchdog shows the stuck
// state the property forbids, as opposed to a slow machine: some goroutine whose stack matches
// HangViolation has been parked for at least a minute ("N minutes" in its header), and no goroutine
// matching HangViolation has run within the last minute (a holder that is still working = contention).
var reMinutes = regexp.MustCompile(`, \d+ minutes[,\]]`)

func (s Spec) hangIsViolation(dump string) bool {
	if s.HangViolation == nil {
		return false
	}
	waiting, working, lockWaiters := 0, 0, 0
	for _, g := range strings.Split(dump, "\n\n") {
		if !strings.HasPrefix(g, "goroutine ") || !s.HangViolation.MatchString(g) {
			continue
		}
		head := g
		if i := strings.IndexByte(g, '\n'); i > 0 {
			head = g[:i]
		}
		// "[<state>, N minutes]": parked for at least a minute (lock, channel, select, condition variable - a
		// lock-order deadlock has one party waiting for a lock and the other for a channel); anything without the
		// annotation has run within the last minute
		if reMinutes.MatchString(head) {
			waiting++
			if strings.Contains(head, "Mutex.Lock") || strings.Contains(head, "Mutex.RLock") || strings.Contains(head, "semacquire") {
				lockWaiters++
			}
		} else {
			working++
		}
	}
	// (at least one of the parked parties waits for a lock: the state a property forbids is a lock that is never
	// released; goroutines that merely wait for a channel while the case is stuck elsewhere do not qualify)
	return waiting > 0 && working == 0 && lockWaiters > 0
}

var routeAssumptions = []string{
	"fake Temporal shards follow stream_sender.go / stream_receiver.go / executable_task_tracker.go of server v1.31.2 (single-stack tracker; inclusive low watermark = first unprocessed task id, else the high watermark; nothing acked before the first message; sources never lower their watermark and always fill RawTaskInfo)",
	"in-memory stream pair with gRPC semantics (half-close, cancel, status on handler return, bounded window as flow control); every message is deep-copied at the boundary",
	"virtual time (testing/synctest): the proxy's own tickers/back-offs run unmodified; thread-level interleavings inside a virtual instant are sampled, not enumerated",
	"tiered-priority watermarks are not modelled",
}

var specs = map[string]Spec{
	"C01": {
		Engine: "routesim", Run: "^TestRoute$", Race: true,
		QuickShards: 16, ThoroughShards: 16, QuickWatchdog: 8 * time.Minute, ThoroughWatchdog: 90 * time.Minute,
		MaxProcs:    []int{16, 4, 2, 1},
		Level:       "exploration",
		LevelText:   "The real routing handlers (sender, receiver, shard manager, ring) run between fake Temporal shards in virtual time under generated workloads (shard-count pairs, batch shapes, idle/slow/late/never-acking/non-reading targets, late connections, probe-induced pre-emption); an online oracle over the boundary event log asserts at every acknowledgement sent to a source that every received task below it was confirmed by its target stream. Sampling of interleavings, not enumeration; -race on.",
		LevelNote:   "Trusted: fake Temporal peers and the in-memory gRPC stream model (small, written from the server sources, cross-checked over real gRPC by the wire engine); the oracle sees only boundary events.",
		Technique:   "runtime monitor: online trace oracle (ack-implies-confirmed) over recorded boundary events of the real handlers, virtual-time stress with probe-induced delays, race detector",
		DesignRef:   "DESIGN.md §4 C01",
		Rule:        "scenarios generated from VERIF_SEED (fixed list: shard-count pairs x batch scripts x target behaviours); a case is non-trivial when at least one acknowledgement above the first task id was checked or a task was delivered; distinct = distinct interleaving signatures (hash of the (kind,stream) sequence of boundary events)",
		Assumptions: routeAssumptions,
		QuickFloors: map[string]int64{"src_acks_nonvacuous": 100, "ev_TGT_RECV": 1000},
		MaxSamples:  2,
	},
	"C02": {
		ExtraEngine: "wire", ExtraRun: "^TestRoutingWire$", ExtraRace: true, ExtraShards: 8,
		Engine: "routesim", Run: "^TestRoute$", Race: true,
		QuickShards: 16, ThoroughShards: 16, QuickWatchdog: 8 * time.Minute, ThoroughWatchdog: 90 * time.Minute,
		MaxProcs:    []int{16, 4, 2, 1},
		Level:       "exploration",
		LevelText:   "Same executions as C01 with the delivery oracle: every task marker handed over by a source must appear exactly once, on the stream of the shard that owns its workflow (harness-side farm32), payload equal after restoring the two id fields, in source order per (source,target); per target stream ids and watermarks must satisfy what Temporal's task tracker requires (a tracker model in the fake target additionally reports every message or task it would drop); at quiescence of fair scenarios every task must have been delivered.",
		LevelNote:   "An extra pass (wire engine) runs routing mode through the assembled ClusterConnection over real gRPC with nL != nR: it shows which routing parameters each direction was given (owner computed under the right cluster's shard count, peer shard count reported by DescribeCluster) and cross-checks the in-memory stream model. Trusted: fake peers, stream model, the harness's own owner computation (farm.Fingerprint32 of namespaceID_workflowID mod n + 1). Tasks without RawTaskInfo are outside the domain (the 1.31 sender always fills it).",
		Technique:   "runtime monitor: exactly-once / ownership / ordering / well-formedness oracle over recorded boundary events + Temporal task-tracker reference model at the fake target",
		DesignRef:   "DESIGN.md §4 C02",
		Rule:        "as C01; non-trivial = at least one task delivered; distinct = distinct interleaving signatures",
		Assumptions: routeAssumptions,
		QuickFloors: map[string]int64{"tasks_delivered": 1000, "ev_TGT_RECV": 1000},
		MaxSamples:  2,
	},
	"C03": {
		Engine: "routesim", Run: "^TestRoute$", Race: true,
		QuickShards: 16, ThoroughShards: 16, QuickWatchdog: 8 * time.Minute, ThoroughWatchdog: 90 * time.Minute,
		MaxProcs:    []int{16, 4, 2, 1},
		Level:       "exploration",
		LevelText:   "Same executions; safety oracle online (acknowledgements per source-stream incarnation never decrease, never exceed the largest exclusive high watermark handed over so far) and bounded progress on the virtual clock for fair scenarios: after the last confirmation the source must receive an acknowledgement equal to its final watermark within 2*P+12 virtual seconds (P = the source's watermark period), else the case is a violation with the event log as witness.",
		LevelNote:   "'Eventually' is decided only as bounded progress in virtual time under the fake peers' fairness (targets ack every period, source repeats its watermark); an unbounded eventuality is out of reach of any finite run.",
		Technique:   "runtime monitor: monotonicity/bound oracle online + bounded-liveness check on virtual time (testing/synctest) over recorded boundary events",
		DesignRef:   "DESIGN.md §4 C03",
		Rule:        "as C01; non-trivial = at least one acknowledgement above the first task id checked; distinct = distinct interleaving signatures",
		Assumptions: routeAssumptions,
		QuickFloors: map[string]int64{"src_acks_checked": 1000},
		MaxSamples:  2,
	},
	"C04": {
		Engine: "routesim", Run: "^TestFault$", Race: true,
		QuickShards: 16, ThoroughShards: 16, QuickWatchdog: 10 * time.Minute, ThoroughWatchdog: 90 * time.Minute,
		MaxProcs:    []int{16, 4, 2, 1},
		Level:       "fault_enumeration",
		LevelText:   "For each base scenario the run is repeated with one stream broken right after each of its boundary events (every shard, every event kind, every position; both fault sides: the initiating cluster's connection dies / the proxy's reverse stream to the source fails), with reconnect delays 0 / 0.5 / 3 s, and in the thorough tier with a second break during recovery; sources resume from the last acknowledgement they received. The C01 oracle runs across incarnations: an acknowledgement may never pass a task no target incarnation confirmed.",
		LevelNote:   "Fault positions are logical (after the k-th event of a kind on a stream) and enumerated; the thread interleaving around each position is sampled. Fake peers as in C01. Breaks of intra-proxy streams between instances are not modelled. One more base (both tiers, quick position set): a target that falls more than a thousand entries behind after its first acknowledgements, so that the sender's proxy-id table wraps and grows with a non-zero head; streams break while that backlog is held.",
		Technique:   "runtime monitor + fault injection: enumerated stream-break positions on the real handlers in virtual time, online ack-implies-confirmed oracle across stream incarnations",
		DesignRef:   "DESIGN.md §4 C04",
		Rule:        "cases = base scenarios x (shard, event kind, position, fault side, reconnect delay) [+ sampled double faults in thorough]; non-trivial = the planned fault actually fired; distinct = distinct interleaving signatures",
		Assumptions: routeAssumptions,
		QuickFloors: map[string]int64{"faults_fired": 300, "src_acks_checked": 1000},
		MaxSamples:  1,
	},
	"C06": {
		ExtraEngine: "wire", ExtraRun: "^TestForwardWire$", ExtraRace: true, ExtraShards: 5,
		Engine: "fwdsim", Run: "^TestForward$", Race: true,
		QuickShards: 16, ThoroughShards: 16, QuickWatchdog: 8 * time.Minute, ThoroughWatchdog: 60 * time.Minute,
		MaxProcs:    []int{16, 4, 2, 1},
		Level:       "fault_enumeration",
		LevelText:   "The real pass-through handler (StreamForwarder, default and LCM modes) runs between an in-memory initiator and an in-memory source in virtual time; for every position of six two-direction scripts of 12 messages and every way either side can end (clean EOF, error status, half-close, cancel, disconnect, failing Send in either direction, unknown message kind from either side) under four progress skews, the oracle checks prefix-faithful relay in both directions, completeness before clean endings, that the handler returns within a bound on the virtual clock, that the source side was half-closed or cancelled, and that no goroutine of the proxy is left (census of stacks).",
		LevelNote:   "Trusted: the in-memory gRPC stream model (status on handler return, context cancellation on return, io.EOF on Send to a finished stream, bounded window). Proxy shutdown (lifetime) is not observed by the forwarder itself: an extra pass of the wire engine drives a pass-through stream through the assembled ClusterConnection over real gRPC and ends it five ways (source EOF, source error, initiator cancel, initiator half-close, proxy shutdown), checking faithful relay and that both real peers observe the end - which also cross-checks the in-memory stream model.",
		Technique:   "runtime monitor + fault injection: enumerated ending kinds x positions on the real forwarder in virtual time; relay-prefix and termination oracles; goroutine census; race detector",
		DesignRef:   "DESIGN.md §4 C06",
		Rule:        "cases = mode x script x ending kind x position x progress skew (quick: all positions for the lockstep skew and every second one for the others; thorough: all, plus 20k random scripts); distinct = distinct (mode,script,ending,position,skew) tuples, all non-trivial (each relays or ends a stream)",
		Assumptions: []string{"in-memory stream pair with gRPC semantics; every message deep-copied at the boundary", "virtual time (testing/synctest); consumers may be slow but never stop reading for ever"},
		QuickFloors: map[string]int64{"positions": 1500, "handler_returned": 1000, "wire_endings": 4},
		MaxSamples:  2,
	},
	"C07": {
		ExtraEngine: "wire", ExtraRun: "^TestAssembly$", ExtraShards: 8,
		Engine: "fwdsim", Run: "^TestLCM$", Race: false,
		QuickShards: 16, ThoroughShards: 16, QuickWatchdog: 8 * time.Minute, ThoroughWatchdog: 60 * time.Minute,
		Level:       "exploration",
		LevelText:   "The real handler in LCM mode (parameters built with the repository's common.LCM exactly as NewClusterConnection builds them, both directions) answers DescribeCluster and serves one stream per LCM shard id; the forwarded metadata recorded by a fake serving cluster is compared with independent 64-bit arithmetic: reported count = lcm, exactly one outgoing stream, server shard = ((s-1) mod count)+1, initiator shard = s, cluster ids and other metadata preserved, no panic, nothing mapped outside 1..count; workflow-hash consistency on random ids with farm32 computed by the harness. All pairs in 1..12 (thorough 1..24) with every shard id are exhaustive; powers of two and mixed composites up to 16384 use boundary and random shard ids.",
		LevelNote:   "The direction wiring inside NewClusterConnection (which server gets which TargetShardCount) and the DescribeCluster override in the assembled servers are observed by the wire engine, not here. Trusted: harness arithmetic, fake serving cluster.",
		Technique:   "runtime monitor: differential check of the real LCM handler's observable routing (recorded outgoing stream metadata, DescribeCluster answer) against an independent arithmetic oracle, bounded-exhaustive + boundary/random inputs",
		DesignRef:   "DESIGN.md §4 C07",
		Rule:        "a case = one (local, remote, direction) block: DescribeCluster + one stream per chosen LCM shard id (+4 ids just outside the range) + 400 random workflow ids; distinct = distinct (local,remote,direction) triples; all non-trivial",
		Exhaustive:  "all (local,remote) pairs in 1..12 (quick) / 1..24 (thorough), both directions, every LCM shard id",
		Assumptions: []string{"fake serving cluster records the outgoing stream metadata; in-memory streams; virtual time"},
		QuickFloors: map[string]int64{"streams": 8000, "exhaustive_blocks_completed": 280},
		MaxSamples:  2,
	},
	"C20": {
		Engine: "fwdsim", Run: "^TestMeta$", Race: false, ExtraRun: "^TestMetaConcurrent$", ExtraRace: true, ExtraShards: 16,
		RaceViolation: regexp.MustCompile(`ReplicationStreamObserver\)\.(ReportStreamValue|PrintActiveStreams)`),
		QuickShards:   16, ThoroughShards: 16, QuickWatchdog: 10 * time.Minute, ThoroughWatchdog: 60 * time.Minute,
		MemGB: 12, CaseTimeoutS: 150,
		HangViolation: regexp.MustCompile(`ReplicationStreamObserver\)\.`),
		Level:         "exploration",
		LevelText:     "The real stream handler in all three modes, with the real ReplicationStreamObserver wired as createServer wires it, is opened with hostile stream-open metadata (each of the four ids at int32 boundary values, values that wrap in the decoder, non-numeric / missing / duplicated headers, pairs of hostile ids, seeded random int32s) in a child process under ulimit -v; then a well-formed stream must be served end to end on the same server and the observer's counters must return to zero. A hostile open must be served or rejected - a process death is attributed to the case by the driver; a handler parked on the observer's lock (goroutine dump) while a fresh caller cannot take that lock for 20 s either is the wedge the property names (a slow machine shows the first without the second). Extra cases: 16 500 distinct shard ids held open at once through the real handler (more than any cluster has shards: LCM-mode ids or a misbehaving peer), the observer's active-stream report called over them, then a well-formed stream, then everything ends and the counters must be back at zero.",
		LevelNote:     "Real time (no bubble): a wedged mutex would keep a virtual clock from advancing. Verdicts are state-based (outgoing stream opened, handler returned, goroutine parked in the observer); a plain timeout without the forbidden state is inconclusive. The assembled gRPC servers in front of the handler are covered by the wire engine.",
		Technique:     "runtime monitor: hostile-input stress of the real handler + observer in child processes (ulimit -v), follow-up liveness probe, counter-conservation check, goroutine-dump inspection for the wedged state",
		DesignRef:     "DESIGN.md §4 C20",
		Rule:          "cases = mode x (id position x boundary/wrapping/malformed value | pairs | random int32); each case = hostile open + follow-up well-formed stream + conservation check; distinct = distinct (mode, metadata) combinations; all non-trivial",
		Assumptions:   []string{"in-memory streams; fake serving cluster accepts every shard id", "ids up to 2^28 (largest LCM of two supported shard counts) may legitimately allocate bookkeeping; the child runs under ulimit -v 12 GB"},
		QuickFloors:   map[string]int64{"hostile_opens": 700, "follow_up_served_end_to_end": 600, "concurrent_rounds_conserved": 1000, "streams_held_open": 16500},
		MaxSamples:    3,
	},
	"C08": {
		Engine: "routesim", Run: "^(TestLifecycle|TestLifecycleStress|TestManyReceivers)$", Race: true, CaseTimeoutS: 300,
		RaceViolation: regexp.MustCompile(`shardManagerImpl\)\.(addLocalShard|removeLocalShard|UnregisterShard|RegisterShard|GetLocalShards|SetRemoteSendChan|RemoveRemoteSendChan|GetRemoteSendChan|SetLocalAckChan|RemoveLocalAckChan|forceRemoveLocalAckChan|GetLocalAckChan|RegisterActiveReceiver|UnregisterActiveReceiver|GetActiveReceiver|SetLocalReceiverCancelFunc|RemoveLocalReceiverCancelFunc|GetLocalReceiverCancelFunc|NodeMeta)\(\)[^\n]*\n[^\n]*\n(?s:.*)runtime\.map`),
		QuickShards:   16, ThoroughShards: 16, QuickWatchdog: 10 * time.Minute, ThoroughWatchdog: 90 * time.Minute,
		MaxProcs:    []int{16, 16, 8, 4},
		Level:       "exploration",
		LevelText:   "Successive incarnations of one shard's stream are opened against the real routing handlers with every kind of overlap (also: once everything is quiet, one more re-open while the previous incarnation is still registered - what the new stream receives at once can only be the replay of the live receivers' last watermarks; a world with 104 / 130 shards per cluster in which a re-established target stream has more live receivers replaying their watermark than its delivery channel has slots; and a first incarnation whose peer never reads while a source has 130 tasks for it, so that a deliverer sits blocked on the OLD incarnation's full channel while the registration is replaced and the old channel is then closed) (while the old one is healthy, right after its cancellation, while its unwinding is parked by the probe logger at each of its cleanup log points, after it returned; chains of 2-4 incarnations) in virtual time, then in real threads under -race (old incarnation's unregister against the new one's register, and whole-handler overlap rounds). At quiescence with the newest incarnation live the oracle reads the registry through the exported API (ownership, delivery channel, ack channel, receiver cancel function, active receiver), sends a marked probe task and a probe ack through the shard manager and checks they reach the newest stream / a live consumer, and checks that a freshly registered target gets a watermark replay from every live receiver; after all streams end nothing may remain registered and no goroutine of the proxy may be left. A process death is attributed to the running case; race reports on the shard/channel maps are violations.",
		LevelNote:   "Probe parking reaches only the code's own log points; lock windows without a log call are reached by real-thread stress with some probability per round (reported as rounds run), not by construction. Single proxy instance (intra-proxy routing of C08's clauses is not modelled).",
		Technique:   "runtime monitor: registry-state and behavioural-probe oracles at quiescent points of overlapping stream incarnations (virtual-time probe parking + real-thread stress), goroutine census, race detector on the registration maps",
		DesignRef:   "DESIGN.md §4 C08",
		Rule:        "cases = overlap kind x timing (single re-opens, all kinds) + seeded chains of 2-3 re-opens + per-child stress blocks; distinct = distinct (overlap sequence, timings) tuples; all non-trivial (each opens at least two incarnations)",
		Assumptions: routeAssumptions,
		QuickFloors: map[string]int64{"overlap_cases": 150, "register_race_rounds": 50000, "overlap_rounds": 1000, "deliveries_that_hit_a_closed_channel": 1, "quiet_reopen_replays_seen": 20, "live_receivers_at_reopen": 100},
		MaxSamples:  2,
	},
	"C12": {
		ExtraEngine: "wire", ExtraRun: "^TestAssembly$", ExtraShards: 2,
		Engine: "xlate", Run: "^TestNamespace$", Race: false,
		QuickShards: 16, ThoroughShards: 16, QuickWatchdog: 8 * time.Minute, ThoroughWatchdog: 60 * time.Minute,
		Level:       "exploration",
		LevelText:   "The real namespace translator (request and response side) runs on one minimal message per structural path to a namespace-name field for every request/response/stream message type of both services (paths enumerated from the protobuf descriptors, each message type at most twice per path), on every history-event path placed inside every history-event blob site (alone, between and before plain events), on every history-event type carrying a workflow-event link (alone and next to a link-less event of the same type) and carrying several links of which only a later or only the first names a namespace (serialized on every blob site and inline wherever a root holds events directly), and on random populated messages; the result is compared with an independent descriptor-driven translator that has no skip list and no Go-field-name table. Any message on which the implementation's shortcut changes the outcome differs from the oracle by construction.",
		LevelNote:   "Trusted: the oracle's definition of a namespace-name field (string fields named namespace / workflow_namespace / parent_workflow_namespace and NamespaceInfo.name; 142 of the 180 *namespace* string fields in the closure, the rest are ids) and the reviewed table of 11 history-event blob sites. The assembled interceptor chain is covered by the wire engine. Every blob x event-path case is repeated with a neighbouring event whose failure message holds invalid UTF-8 (bytes patched into the serialized batch): a batch that needs the legacy UTF-8 repair must still be translated; judged when the repaired result has the same name sites as the clean twin (what the legacy repair itself drops is not this property's business).",
		Technique:   "runtime monitor: differential execution of the real translator against an independent protoreflect oracle over descriptor-enumerated paths + random messages",
		DesignRef:   "DESIGN.md §4 C12",
		Rule:        "cases = one per root message type (all its paths and blob x event-path placements) + blocks of 50 random populated messages; distinct = distinct (root, path) and (root, blob path, event path) pairs; all non-trivial",
		Exhaustive:  "every structural path (recursion bound 2) to a namespace-name field in every request/response type of WorkflowService and AdminService, and every (blob site path x event path) pair",
		Assumptions: []string{"events inside blobs carry an event_type that agrees with their attributes (as real histories do)"},
		QuickFloors: map[string]int64{"path_cases": 1000, "blob_event_cases": 1000, "random_messages": 2000},
		MaxSamples:  2,
	},
	"C13": {
		ExtraEngine: "wire", ExtraRun: "^TestAssembly$", ExtraShards: 2,
		Engine: "xlate", Run: "^TestFidelity$", Race: false,
		QuickShards: 16, ThoroughShards: 16, QuickWatchdog: 8 * time.Minute, ThoroughWatchdog: 60 * time.Minute,
		Level:       "exploration",
		LevelText:   "On random populated messages of every request/response type, for one-to-one mappings including chains (a->b, b->c), prefix/substring/case variants and unmapped names, and for both servers' (request, response) map pairs: after translation everything except namespace-name sites is unchanged (comparison with the name sites blanked, blobs decoded), a message with nothing to map is proto-equal including blob bytes, and request-side followed by response-side translation restores the original; the same for search-attribute keys on admin traffic. Every mapping list over a 4-name alphabet up to length 3 (4369 lists) is fed to the configuration loaders: accepted iff no local and no remote name repeats.",
		LevelNote:   "In-process part. Which map each assembled server actually receives (direction wiring in NewClusterConnection) is observed end to end by the wire engine. Round trips are checked on the only domain on which a bijection on names is invertible: names that are keys of the request map or outside keys and values.",
		Technique:   "runtime monitor: metamorphic oracles (blank-and-compare, round-trip identity, no-op identity) on the real translators over random messages + exhaustive small configuration space",
		DesignRef:   "DESIGN.md §4 C13",
		Rule:        "cases = blocks of 50 random messages x 4 mappings x 2 servers, + one exhaustive configuration block; distinct = (root type, mapping, server) triples that actually contained a mapped name + distinct configuration lists",
		Exhaustive:  "all namespace / search-attribute mapping lists over {a,b,c,d} of length <= 3",
		Assumptions: []string{"oracle's definition of namespace-name sites and search-attribute containers (gen package)"},
		QuickFloors: map[string]int64{"messages": 5000, "messages_with_mapped_names": 500, "round_trips_ok": 4000, "mapping_lists": 4369},
		MaxSamples:  2,
	},
	"C14": {
		ExtraEngine: "wire", ExtraRun: "^TestAssembly$", ExtraShards: 2,
		Engine: "xlate", Run: "^TestSA$", Race: false,
		QuickShards: 16, ThoroughShards: 16, QuickWatchdog: 8 * time.Minute, ThoroughWatchdog: 60 * time.Minute,
		Level:       "exploration",
		LevelText:   "The real search-attribute translator runs on one message per structural path to a search-attributes container (typed SearchAttributes and bare map<string,Payload>) in every AdminService request/response type, on every container path of a history event placed in every history-blob site, and on random admin messages; expected result from an independent oracle: mapped keys renamed to their counterpart (direction by request/response side), unmapped keys and all payloads untouched, key count preserved. For every WorkflowService method, messages with mapped keys go through the real TranslationInterceptor (MatchMethod consulted as in production) and must come out unchanged.",
		LevelNote:   "Key sets never contain an unmapped key equal to a mapping target (the property's domain). AddSearchAttributesRequest (map<string,IndexedValueType>) and RemoveSearchAttributesRequest ([]string) are not containers in the property's sense; the translator's 'unhandled type' error on them is recorded as an observation in DESIGN.md, not judged. Every blob x event-path case is repeated with a neighbouring event whose failure message holds invalid UTF-8: a batch that needs the legacy UTF-8 repair must still have its keys renamed (judged when the repaired result has the same containers as the clean twin).",
		Technique:   "runtime monitor: differential execution of the real search-attribute translator against an independent key-renaming oracle over descriptor-enumerated container paths + random messages",
		DesignRef:   "DESIGN.md §4 C14",
		Rule:        "cases = one per root type (all container paths, blob x event container paths; exclusion clause for workflow-service types) + random blocks; distinct = (root, path) pairs",
		Exhaustive:  "every structural path (recursion bound 2) to a search-attributes container in AdminService messages, every event container path in every blob site, every WorkflowService method for the exclusion clause",
		Assumptions: []string{"oracle's definition of search-attribute containers: fields named search_attributes of type SearchAttributes or map<string,Payload>"},
		QuickFloors: map[string]int64{"sa_path_cases": 20, "sa_blob_cases": 50, "workflow_service_exclusion_cases": 20, "sa_random_messages": 1500},
		MaxSamples:  2,
	},
	"C16": {
		ExtraEngine: "wire", ExtraRun: "^TestAssembly$", ExtraShards: 2,
		Engine: "xlate", Run: "^TestACL$", Race: false,
		QuickShards: 16, ThoroughShards: 16, QuickWatchdog: 8 * time.Minute, ThoroughWatchdog: 60 * time.Minute,
		Level:       "exploration",
		LevelText:   "For every unary request type of both services and every structural path to a namespace name (also inside every history-blob site), the real interceptors composed in production order (translation, then access control, then a recording handler) are called with that one site naming a forbidden namespace (must be PermissionDenied and the handler not reached) and naming the allowed one (must be forwarded); four variants: no translation, translation with names given in remote form (only a check running after translation decides right), remote-looking-allowed-but-unmapped names, and the translation-bypass header. Random populated requests with all sites allowed and then one flipped cover combinations. ListNamespaces through the real workflow-service handler must return exactly the allowed namespaces (in remote form).",
		LevelNote:   "In-process part: that the assembled inbound server really installs the chain in this order, on both transports, is observed by the wire engine (C15/C16). Empty names are recorded, not judged. A forbidden name inside a history batch that needs UTF-8 repair first (invalid bytes in a neighbouring event's failure message) must be refused as well; if the legacy repair dropped the event naming it (event types unknown to the 1.22 schema) the name does not reach the local cluster and the case is counted, not judged.",
		Technique:   "runtime monitor: exhaustive path-wise probing of the real interceptor chain with a recording terminal handler (reached / not reached, status code)",
		DesignRef:   "DESIGN.md §4 C16",
		Rule:        "cases = one per unary method (all paths x 4 variants x {forbidden, allowed}, blob x event paths, random combinations) + ListNamespaces block; distinct = (method, variant, path) triples",
		Exhaustive:  "every structural path (recursion bound 2) to a namespace-name field in every unary request type; every event path in every blob site (quick: all for the translated variant, every second one for the others)",
		Assumptions: []string{"oracle's definition of namespace-name sites (gen package)"},
		QuickFloors: map[string]int64{"acl_calls": 3000, "denied": 1400, "forwarded": 1400, "list_namespaces_calls": 300},
		MaxSamples:  2,
	},
	"C17": {
		Engine: "utf8", Run: "^TestRepair$", Race: false,
		QuickShards: 16, ThoroughShards: 16, QuickWatchdog: 8 * time.Minute, ThoroughWatchdog: 60 * time.Minute,
		Level:       "exploration",
		LevelText:   "Wire bytes are produced from random messages built in the legacy gogo schema (what an old server can emit) and decoded by the real RepairUTF8Codec: (1) valid data, legacy-built and current-schema (with fields the legacy schema does not know), must decode exactly as the standard codec decodes it; (2) invalid byte sequences (lone continuation, truncated, overlong, surrogates, 0xFF runs) in 1-3 failure messages at cause depths 1-10 must decode successfully, with every string valid and the message equal to the same message built with the sanitised text (runs of U+FFFD collapsed, so one-per-run and one-per-byte are both accepted); (3) invalid UTF-8 in any other string field, chains beyond depth 10, truncated and bit-flipped encodings must never come back with a nil error and an invalid string, and must agree with the standard codec's accept/reject verdict. The history-blob repair path is driven through the real namespace translator: a blob it reports success on must decode with the standard decoder and equal the sanitised blob.",
		LevelNote:   "Trusted: gogo marshalling of the legacy structs, the reference decode by google.golang.org/protobuf, the sanitised-twin construction. The oracle never calls strings.ToValidUTF8.",
		Technique:   "runtime monitor: differential decoding (real repair codec vs standard codec on a sanitised twin of the same legacy message), string-validity walk of every result, random + corrupted encodings",
		DesignRef:   "DESIGN.md §4 C17",
		Rule:        "cases = blocks of 50 random legacy messages, each assigned one of six modes (valid / dirty failures x2 / dirty other string / too-deep chain / garbled), blocks of 100 current-schema messages, one blob-repair block; distinct = (mode, root type) pairs observed",
		Assumptions: []string{"legacy messages are generated by reflection over the proto/1_22 structs; enum values 0..2; depth-bounded"},
		QuickFloors: map[string]int64{"valid_messages": 2000, "dirty_failure_messages": 300, "repaired_faithfully": 300, "rejected_as_expected": 200, "garbled_encodings": 300, "blob_repairs": 500},
		MaxSamples:  2,
	},
	"C18": {
		Engine: "utf8", Run: "^TestReach$", Race: false,
		QuickShards: 16, ThoroughShards: 16, QuickWatchdog: 8 * time.Minute, ThoroughWatchdog: 60 * time.Minute,
		Level:       "exploration",
		LevelText:   "For every request/response type that has a legacy counterpart and can reach a failure (21 roots, list committed so that a root dropped from the conversion tables is noticed), every structural path from the legacy struct to a Failure is enumerated by reflection (through pointers, slices, maps, oneof wrappers; each struct type at most twice per path); for each path and cause depth 1, 2, 5, 10 a minimal legacy message with an invalid failure message there is marshalled and decoded by the real codec: it must succeed, every string must be valid, and the result must equal the same message built with the sanitised text; then all paths of the root at once.",
		LevelNote:   "Paths through a oneof pick one wrapper each; the 'all at once' message keeps the last wrapper chosen per oneof slot. Supported depth (10) is the repository's constant, probed at its boundary here and beyond it in C17.",
		Technique:   "runtime monitor: reflection-enumerated structural paths over the legacy schema, one injected fault per path, differential decode against a sanitised twin",
		DesignRef:   "DESIGN.md §4 C18",
		Rule:        "cases = one per supported root (all its paths x 4 cause depths + all-at-once); distinct = (root, path) pairs; all non-trivial",
		Exhaustive:  "every structural path (recursion bound 2) from every down-convertible root type to a failure message",
		Assumptions: []string{"supported roots = request/response types with a registered legacy struct that reach a Failure; the list of 21 such roots is committed (utf8/supported_roots.txt)"},
		QuickFloors: map[string]int64{"reach_cases": 600, "repaired_ok": 600},
		MaxSamples:  2,
	},
	"C19": {
		ExtraEngine: "wire", ExtraRun: "^TestTLSWire$", ExtraShards: 1,
		Engine: "tlsmatrix", Run: "^TestMatrix$", Race: false,
		QuickShards: 8, ThoroughShards: 8, QuickWatchdog: 10 * time.Minute, ThoroughWatchdog: 30 * time.Minute,
		Level:       "exploration",
		LevelText:   "Real handshakes against the real TLS configurations: the proxy as server (GetServerTLSConfig in a raw TLS listener and inside the real mux receiver) and as client (GetClientTLSConfig in a raw dial and inside the real mux establisher), against every peer credential from an in-process PKI (valid chain, second valid chain, self-signed, self-signed copying the CA's subject, other CA, expired, not yet valid, wrong extended key usage, wrong DNS name, none; the client presents its certificate regardless of the CA hint) x verification on/off x own certificate yes/no. The verdict is taken on the first application round trip (raw) / yamux ping and session registration (mux) observed from both ends, not on Handshake() returning, because a TLS 1.3 client finishes before the server verifies. Four more rows build the proxy's configuration FIRST and then issue a CA leaf whose validity begins / ends about 3 s later: the same configuration object must admit it inside and refuse it outside its validity (validity is judged at connection time, not at configuration time). Admitted iff the credential chains to the configured CA, is within validity, has the right usage (and, client role, matches the configured name); with skipCAVerification everything connects.",
		LevelNote:   "The matrix is exhaustive over the listed credentials and switches (336 rows). CA loaded from file only (no https CA source in the sandbox). An extra pass (wire engine) assembles a ClusterConnection with TLS on the remote-facing TCP server and on the client towards a cluster, and checks with real gRPC calls that only the valid credential is served in either role and that a plaintext client is not - i.e. that the configuration's TLS settings are really installed.",
		Technique:   "runtime monitor: exhaustive credential x configuration matrix of real TLS handshakes, verdict on application data observed at both ends",
		DesignRef:   "DESIGN.md §4 C19",
		Rule:        "cases = role x embedding x peer credential x verification x own certificate; distinct = rows; all non-trivial",
		Exhaustive:  "the full cross product of 11 peer credentials x 2 roles x 2 embeddings x verification on/off x own certificate yes/no",
		Assumptions: []string{"loopback sockets, real time; a watchdog expiry is inconclusive, never a violation"},
		QuickFloors: map[string]int64{"handshakes": 150, "admitted": 60, "refused": 60, "assembled_handshakes": 10},
		MaxSamples:  3,
	},
	"C10": {
		ExtraEngine: "wire", ExtraRun: "^(TestMuxEstablisher|TestMuxReceiver)$", ExtraRace: true, ExtraShards: 10, CaseTimeoutS: 240,
		Engine: "muxsim", Run: "^TestMux$", Race: true,
		RaceViolation: regexp.MustCompile(`multiMuxManager\)\.(AddConnection|unregisterMux|GetMuxConnections|notifyChange|onClose)`),
		HangViolation: regexp.MustCompile(`mux\.\(\*multiMuxManager\)\.`),
		QuickShards:   16, ThoroughShards: 16, QuickWatchdog: 10 * time.Minute, ThoroughWatchdog: 90 * time.Minute,
		MaxProcs:    []int{16, 4, 2, 1},
		Level:       "fault_enumeration",
		LevelText:   "The real mux provider, multi-mux manager and managed sessions run over net.Pipe connections handed out by a scripted connection provider in virtual time. Every fault script over seven per-attempt outcomes (dial failure, peer closes at once, peer silent, yamux setup error, peer talks garbage, session dies later, session closed locally) up to a length bound for pool sizes 1-2 and random longer scripts for pools up to 4 are run to heal: the table may never exceed the limit (checked inside the manager's own list-update callback and at the peer), and 90 virtual seconds after the last fault the pool must be at full strength with the provider reporting no free slot, every slot carrying a stream. The lifetime is cancelled at the k-th occurrence of every provider step (before/after NewConnection, before/after session setup, before/after registration): afterwards the manager must report closed, no session may stay registered and every connection ever handed to the provider must have been closed.",
		LevelNote:   "Fault and cancel positions are logical (k-th occurrence of a provider step) and enumerated; the thread interleaving around them is sampled under -race. The scripted provider consumes 3 ms of virtual time per attempt (a real dial/accept blocks; the provider retries without back-off). The real TCP establisher (dial with exponential back-off) is exercised by an extra pass of the wire engine (TestMuxEstablisher): the real GRPCMuxManager in mux-client role dials a harness listener that listens with a working yamux server, refuses, accepts-and-closes and kills sessions on a script; from accepts and connection ends alone the harness checks the limit, the refill to full strength, and after the lifetime ends: every connection closed, CloseChan within the establisher's own back-off bound, and no connection ever again - also not when a peer that was unreachable during shutdown comes back. The real TCP receiver has its own part of that pass (TestMuxReceiver): harness peers dial MORE connections than the configured count, keep them queued, kill served and queued ones, and the lifetime is cancelled with peers queued; a peer is 'in' once its own yamux ping is answered. Never more than the count served or listed at once, the pool refills from the queue, after the lifetime ends every served session ends, CloseChan fires, and a later dial is refused or never served.",
		Technique:   "runtime monitor + fault injection: scripted connection outcomes and cancellation at enumerated provider steps on the real provider/manager/session in virtual time; limit, permit-conservation, heal and everything-closed oracles; race detector on the session table",
		DesignRef:   "DESIGN.md §4 C10",
		Rule:        "cases = pool size x fault script [x cancel step kind x occurrence]; distinct = distinct (pool size, script, cancel point) tuples; all non-trivial",
		Assumptions: []string{"net.Pipe + yamux in a synctest bubble; harness-side peers are yamux clients", "ConnectionWriteTimeout 2 s for the sessions built by the scripted session function"},
		QuickFloors: map[string]int64{"scripts": 400, "healed_to_full_strength": 200, "cancel_points_hit": 100, "quiet_after_shutdown": 5, "full_strength_reached": 12, "all_sessions_closed_after_shutdown": 4},
		MaxSamples:  2,
	},
	"C09": {
		ExtraEngine: "wire", ExtraRun: "^(TestClusterRouting|TestPeerSender)$", ExtraRace: true, ExtraShards: 4, CaseTimeoutS: 240,
		Engine: "gossip", Run: "^TestConvergence$", Race: true,
		RaceViolation: regexp.MustCompile(`shardManagerImpl\)|shardDelegate\)|shardEventDelegate\)`), RaceOnTopFrames: true,
		QuickShards: 16, ThoroughShards: 16, QuickWatchdog: 10 * time.Minute, ThoroughWatchdog: 60 * time.Minute,
		Level:       "exploration",
		LevelText:   "Two to three real shard managers are started with their own (isolated) memberlist so that the real delegates and callbacks are installed; the harness is the gossip network: for every subset and time order of competing claims on 1-2 shards it delivers the ownership announcements (built as broadcastShardChange builds them) to every other instance in every permutation, with a duplicate, a full-state merge (LocalState -> MergeRemoteState) and a node-leave inserted, and finally with and without a closing push/pull round. Afterwards each shard must be owned by exactly the instance with the newest live claim, every instance's view of its peers must list the shard only under that owner (after the closing round), and an instance that left must own nothing in any peer's view. The routing clause is probed on the same instances: local stream => delivered locally exactly once; nobody => reported undelivered; local stream closing => reported undelivered; known but unreachable remote owner => reported undelivered and nothing arrives. Reachable remote owner (case peer-stream): a real shard manager opens its intra-proxy stream to a harness peer whose handler accepts k acks and then ends the stream (cleanly / with an error); 'delivered' must mean the peer received the ack exactly once, in particular for acks forwarded in the window - held open at the code's own log point - in which the peer has ended the stream and the instance's receive loop knows it but has not removed the stream yet.",
		LevelNote:   "Permutations of deliveries are exhaustive for the listed families (2 instances/1 shard, 3 instances/1 shard, 2 instances/2 shards, up to 7 deliveries); timing between real goroutines is not involved (the delegates are called synchronously by the harness). Forwarding to a reachable remote owner is observed by an extra pass of the wire engine: two assembled proxy instances really joined by memberlist on loopback, each holding half of the shards' streams, both clusters fake; every task whose owner shard lives on the other instance must arrive exactly once on the right shard (routesim recorder) and every source must be acknowledged to its final watermark; the evidence counts messages and acks that crossed between the instances. Three variants: both instances start together; late-joiner (instance b joins a running instance a with an empty state and gets its shard streams afterwards, as in a rolling restart); shard-moves (in the middle of two seconds of traffic the stream of one target shard is closed on instance b and re-opened against instance a, as when Temporal's frontend moves it: every task the sources send a second or more after the move must reach a target stream). An instance that names a known owner and address but reports the same shard pair undelivered >= 5 times over > 20 s up to the end of the run is a violation; shorter spells while a peer stream is set up are allowed by the statement and only counted. Second part of the extra pass (TestPeerSender): one assembled instance and the harness as its peer (a real memberlist member announcing the target shard, serving the streams the instance opens to it and opening the stream the instance forwards on); the source sends single tasks of that target on command; the harness breaks its stream (cancel / half-close), the instance's sender is held at its own log point between seeing the end and unregistering, a task is sent into that window, and the stream is re-established after or before the old handler has unwound; every task sent must reach the owner.",
		Technique:   "runtime monitor: harness-as-network permutation of real delegate callbacks on real shard managers; convergence and view oracles; routing-result probes",
		DesignRef:   "DESIGN.md §4 C09",
		Rule:        "cases = blocks of 200 scenarios (claim order x delivery permutation x {plain, duplicate, merge, leave position}) each run with and without a final sync; distinct = (family, shape, length) classes",
		Exhaustive:  "all delivery permutations of the listed claim families",
		Assumptions: []string{"announcements are delivered at least once to every other live instance (memberlist reliable send)", "registration times are distinct (2 µs apart)"},
		QuickFloors: map[string]int64{"scenarios": 2000, "routing_probes": 25, "termination_windows_held": 3, "tasks_sent_into_window": 2, "cluster_runs_completed": 1, "messages_forwarded_between_instances": 5},
		MaxSamples:  2,
	},
	"C15": {
		Engine: "wire", Run: "^TestACLWire$", Race: false,
		QuickShards: 8, ThoroughShards: 16, QuickWatchdog: 10 * time.Minute, ThoroughWatchdog: 60 * time.Minute,
		Level:       "exploration",
		LevelText:   "A real ClusterConnection is assembled on loopback (TCP inbound server, and mux-server inbound reached over a real yamux session) between two generic fake clusters that accept and record every method of both services. Every method of WorkflowService and AdminService from the service descriptors (154, the streaming one opened as a stream) is called on the remote-facing server, once without and once with the translation-bypass header, workflow methods first and admin methods first (the same server instance serves the whole sequence), under allow-lists {policy with empty lists, all, singletons incl. the two names that exist in both services, random subsets} and under no policy. Oracle: a non-listed admin method and RegisterNamespace/DeprecateNamespace under any policy are answered PermissionDenied and the fake local cluster recorded no call; every other method is forwarded exactly once (or is Unimplemented by the proxy and not forwarded); without a policy nothing is denied; the local-facing server is unaffected.",
		LevelNote:   "Real sockets and real time: a transport error or deadline is inconclusive, never a violation. Requests are empty messages (namespace contents are C16's business). Every method of every policy case is also called with the intra-proxy marker headers set by the remote caller: methods outside the allow-list must still be refused (allowed methods carrying the marker are not judged).",
		Technique:   "runtime monitor: exhaustive method enumeration against the assembled proxy with a recording fake cluster (call log + status code oracle)",
		DesignRef:   "DESIGN.md §4 C15",
		Rule:        "cases = (policy/allow-list, transport, call order); each case calls all 154 methods twice (with/without bypass header); distinct = cases",
		Exhaustive:  "every method of both services per case",
		Assumptions: []string{"generic fake cluster built on grpc.UnknownServiceHandler with the service descriptors from the registry"},
		QuickFloors: map[string]int64{"rpcs": 3000, "denied": 500, "forwarded": 1000},
		MaxSamples:  2,
	},
	"C11": {
		Engine: "wire", Run: "^(TestMuxRPC|TestMuxRPCPipe)$", Race: true,
		RaceViolation: regexp.MustCompile(`MultiClientConn\)|multiMuxManager\)`),
		QuickShards:   16, ThoroughShards: 16, QuickWatchdog: 10 * time.Minute, ThoroughWatchdog: 90 * time.Minute,
		Level:       "exploration",
		LevelText:   "The real MultiClientConn is driven by the real GRPCMuxManager (receiver role) over loopback TCP + yamux. Harness peers connect, serve a tagged gRPC server on their session and die on a seeded script (add, kill, flap = die right after establishment, kill all, replace = kill and add at once) while three client goroutines issue RPCs continuously. After every update, at a quiescent point reached by polling state (not by sleeping), the set of registered sessions must equal the number of live peer sessions, the endpoint keys the client connection may dial (MultiClientConn.Describe) must equal the registered keys, and CanMakeCalls must equal 'set non-empty'; a fresh RPC must then succeed if a session is alive and fail with Unavailable/DeadlineExceeded if none is; over the whole history every successful RPC must have been served by a peer whose session was alive during the call. Variants: a slow list-update listener; a client connection with a 300 ms gRPC idle timeout (a quarter of the random cases, plus scripted cases in which the clients fall quiet so that the channel goes idle between updates and calls, and in which the session list changes while it is idle); scripted cases with a session whose health check failed once (the harness peer swallows its reply to the second ping: the session keeps working, its state reads Error) registered when the list changes. A second, pipe-based part (TestMuxRPCPipe): the harness plays the manager with real managed sessions over net.Pipe, one of them with a peer that has stopped reading (opening a stream on it blocks until yamux gives up), and changes the session list while gRPC's dial of that endpoint is stuck in Open(): the update must be applied at once, CanMakeCalls must answer, calls must reach the new session.",
		LevelNote:   "Real time and sockets. A state that is still wrong after the live-peer set has been stable for 8 s is a violation by state (stale set); transport hiccups shorter than that are tolerated by polling. gRPC's own balancer is in the loop (round robin over the resolver's endpoints).",
		Technique:   "runtime monitor: state-equality oracle at polled quiescent points + availability probes + served-by-live-session check over the recorded RPC history, race detector",
		DesignRef:   "DESIGN.md §4 C11",
		Rule:        "cases = seeded update sequences of 14 operations for pool sizes 1-3 (listener slow/prompt, idle timeout on/off) + 4 scripted idle / failed-health-check cases; distinct = cases; all non-trivial",
		Assumptions: []string{"peers are yamux clients running a gRPC server on the session; the proxy side is the real receiver provider"},
		QuickFloors: map[string]int64{"updates": 60, "quiescent_points_checked": 60, "rpcs_ok": 150, "quiet_periods": 1, "registered_sessions_seen_in_error_state": 1, "updates_applied_while_a_dial_was_stuck": 1},
		MaxSamples:  2,
	},
	"C05": {
		Engine: "ringmodel", Run: "^TestRing$", Race: false,
		QuickShards: 16, ThoroughShards: 16, QuickWatchdog: 5 * time.Minute, ThoroughWatchdog: 40 * time.Minute,
		Level:      "exploration",
		LevelText:  "The real ring buffer is run side by side with a plain-slice reference model on every operation sequence up to a bound (exhaustive) and on long random sequences; every aggregate result, count, size and a final one-by-one drain are compared. Exhaustive within the bound, sampled beyond it: the right level for a small sequential data structure whose bugs need specific wrap/growth/hole alignments.",
		LevelNote:  "Trusted: the 30-line reference model; the export shim (no logic). Domain: increasing proxy ids >= 1, non-zero source shards. Concurrent use of the ring under the sender's mutex is exercised by the routing engine (C01), not here.",
		Technique:  "runtime monitor: differential execution of the real data structure against a reference model (bounded-exhaustive + random sequences)",
		DesignRef:  "DESIGN.md §4 C05",
		Rule:       "every operation sequence over an 11-symbol alphabet (append-next, append-gap, aggregate at 5 watermark classes, discard 0/1/all/count-from-last-aggregate) up to a length bound x initial capacities 1..4, each re-executed from scratch on the real ring and on a plain-slice reference model, plus seeded random long sequences; a case is one block of sequences; distinct_nontrivial counts distinct (head,size,capacity) states of the real ring reached in which the ring had wrapped or grown",
		Exhaustive: "all sequences up to the length bound printed in observed.exhaustive_len (quick 6, thorough 7) for capacities 1..4",
		Assumptions: []string{
			"proxy ids start >= 1 and increase; source shards are non-zero (the zero ClusterShardID is the ring's hole marker)",
			"the ring is reached through the verif-tagged export shim VerifNewRing (no logic in the shim)",
		},
		QuickFloors: map[string]int64{"sequences": 1000000, "ops": 5000000, "exhaustive_blocks_completed": 470},
	},
}
