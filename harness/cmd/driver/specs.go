package main

import (
	"regexp"
	"time"
)

type Spec struct {
	ID               string
	Engine           string // package directory under harness/
	Run              string // -test.run regexp
	Race             bool
	RaceViolation    *regexp.Regexp // a race report matching this is a violation (see DESIGN §2.6)
	QuickShards      int
	ThoroughShards   int
	QuickWatchdog    time.Duration
	ThoroughWatchdog time.Duration
	MaxProcs         []int
	MemGB            int
	Level            string
	Rule             string
	Exhaustive       string
	Assumptions      []string
	QuickFloors      map[string]int64
	ThoroughFloors   map[string]int64
	HangViolation    *regexp.Regexp // watchdog dump matching this is a violation, else inconclusive
	MaxSamples       int
	LevelText        string
	LevelNote        string
	Technique        string
	DesignRef        string
}

func (s Spec) memKB() int {
	g := s.MemGB
	if g == 0 {
		g = 24
	}
	return g * 1024 * 1024
}
func (s Spec) maxSamples() int {
	if s.MaxSamples > 0 {
		return s.MaxSamples
	}
	return 3
}
func (s Spec) floors(tier string) map[string]int64 {
	if tier == "thorough" && s.ThoroughFloors != nil {
		return s.ThoroughFloors
	}
	return s.QuickFloors
}
func (s Spec) hangIsViolation(dump string) bool {
	return s.HangViolation != nil && s.HangViolation.MatchString(dump)
}

var specs = map[string]Spec{
	"C05": {
		Engine: "ringmodel", Run: "^TestRing$", Race: false,
		QuickShards: 16, ThoroughShards: 16, QuickWatchdog: 5 * time.Minute, ThoroughWatchdog: 40 * time.Minute,
		Level:      "exploration",
		LevelText:  "The real ring buffer is run side by side with a plain-slice reference model on every operation sequence up to a bound (exhaustive) and on long random sequences; every aggregate result, count, size and a final one-by-one drain are compared. Exhaustive within the bound, sampled beyond it: the right level for a small sequential data structure whose bugs need specific wrap/growth/hole alignments.",
		LevelNote:  "Trusted: the 30-line reference model; the export shim (no logic). Domain: increasing proxy ids >= 1, non-zero source shards. Concurrent use of the ring under the sender's mutex is exercised by the routing engine (C01), not here.",
		Technique:  "runtime monitor: differential execution of the real data structure against a reference model (bounded-exhaustive + random sequences)",
		DesignRef:  "DESIGN.md §4 C05",
		Rule:       "every operation sequence over an 11-symbol alphabet (append-next, append-gap, aggregate at 5 watermark classes, discard 0/1/all/count-from-last-aggregate) up to a length bound x initial capacities 1..4, each re-executed from scratch on the real ring and on a plain-slice reference model, plus seeded random long sequences; a case is one block of sequences; distinct_nontrivial counts distinct (head,size,capacity) states of the real ring reached in which the ring had wrapped or grown",
		Exhaustive: "all sequences up to the length bound printed in observed.exhaustive_len (quick 6, thorough 7) for capacities 1..4",
		Assumptions: []string{
			"proxy ids start >= 1 and increase; source shards are non-zero (the zero ClusterShardID is the ring's hole marker)",
			"the ring is reached through the verif-tagged export shim VerifNewRing (no logic in the shim)",
		},
		QuickFloors: map[string]int64{"sequences": 1000000, "ops": 5000000, "exhaustive_blocks_completed": 484},
	},
}
