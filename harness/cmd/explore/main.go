package main

import (
	"fmt"
	"sort"
	"strings"

	"google.golang.org/protobuf/reflect/protoreflect"

	"verifharness/gen"
)

func main() {
	var roots []protoreflect.MessageDescriptor
	for _, m := range gen.AllMethods() {
		roots = append(roots, m.In, m.Out)
	}
	cl := gen.Closure(roots...)
	fmt.Println("methods:", len(gen.AllMethods()), "closure messages:", len(cl))
	var nsFields, blobFields, saFields []string
	for _, md := range cl {
		for i := 0; i < md.Fields().Len(); i++ {
			f := md.Fields().Get(i)
			if f.Kind() == protoreflect.StringKind && strings.Contains(string(f.Name()), "namespace") {
				nsFields = append(nsFields, fmt.Sprintf("%-40s %s list=%v", f.Name(), gen.DescribeField(f), f.IsList()))
			}
			if f.Message() != nil && f.Message().FullName() == "temporal.api.common.v1.DataBlob" {
				blobFields = append(blobFields, fmt.Sprintf("%s list=%v", gen.DescribeField(f), f.IsList()))
			}
			if strings.Contains(string(f.Name()), "search_attributes") {
				t := "?"
				if f.IsMap() {
					t = "map"
				} else if f.Message() != nil {
					t = string(f.Message().FullName())
				} else {
					t = f.Kind().String()
				}
				saFields = append(saFields, fmt.Sprintf("%s type=%s list=%v", gen.DescribeField(f), t, f.IsList()))
			}
		}
	}
	sort.Strings(nsFields)
	sort.Strings(blobFields)
	sort.Strings(saFields)
	fmt.Println("== string fields containing 'namespace':", len(nsFields))
	byName := map[string]int{}
	for _, s := range nsFields {
		byName[strings.Fields(s)[0]]++
	}
	fmt.Println(byName)
	for _, s := range nsFields {
		n := strings.Fields(s)[0]
		if n != "namespace" && n != "namespace_id" {
			fmt.Println("  ", s)
		}
	}
	fmt.Println("== DataBlob fields:", len(blobFields))
	for _, s := range blobFields {
		fmt.Println("  ", s)
	}
	fmt.Println("== search_attributes fields:", len(saFields))
	for _, s := range saFields {
		fmt.Println("  ", s)
	}
	// path counts
	isNS := func(f protoreflect.FieldDescriptor) bool {
		n := string(f.Name())
		return f.Kind() == protoreflect.StringKind && (n == "namespace" || n == "workflow_namespace" || n == "parent_workflow_namespace") ||
			(n == "name" && f.ContainingMessage().FullName() == "temporal.api.namespace.v1.NamespaceInfo")
	}
	total := 0
	maxp := 0
	for _, m := range gen.AllMethods() {
		for _, r := range []protoreflect.MessageDescriptor{m.In, m.Out} {
			p := gen.EnumeratePaths(r, isNS, 2, 14, 200000)
			total += len(p)
			if len(p) > maxp {
				maxp = len(p)
				fmt.Println("max so far", r.FullName(), len(p))
			}
		}
	}
	fmt.Println("total ns paths (repeat 2, depth 14):", total)
}
