package routesim

// C08 with more than a hundred shards streaming through one instance: when a target stream is re-established,
// every live receiver replays its last watermark to the new sender - more of them than the sender's delivery
// channel has slots. The new incarnation must still come up, serve, and leave nothing behind.

import (
	"context"
	"fmt"
	"math/rand"
	"testing"
	"testing/synctest"
	"time"

	"go.temporal.io/server/api/adminservice/v1"
	persistencespb "go.temporal.io/server/api/persistence/v1"
	replicationv1 "go.temporal.io/server/api/replication/v1"
	"go.temporal.io/server/client/history"
	"go.temporal.io/server/common/channel"
	"google.golang.org/grpc/metadata"

	"github.com/temporalio/s2s-proxy/config"
	"github.com/temporalio/s2s-proxy/encryption"
	"github.com/temporalio/s2s-proxy/proxy"
	"verifharness/fakes"
	"verifharness/rec"
)

func runManyReceivers(n int, seed int64) (viol []rec.Violation, counts map[string]int64) {
	counts = map[string]int64{}
	v := func(sig, f string, a ...any) {
		viol = append(viol, rec.Violation{Prop: "C08", Sig: sig, What: fmt.Sprintf(f, a...)})
	}
	sc := &Scenario{Class: "fault", Seed: seed, NL: n, NR: n, PeriodMS: 120000, WatermarkOnConnect: true, NWf: 6, Scripts: map[string][]Batch{}, Final: map[string]int64{}, Targets: map[string]TargetBeh{}, Window: 4,
		Faults: []Fault{{Side: "none"}}}
	for i := 1; i <= n; i++ {
		for _, s := range []string{shardName(1, i), shardName(2, i)} {
			sc.Scripts[s] = []Batch{{High: 100, WaitMS: 100}} // a watermark only: every receiver then holds a last watermark
			sc.Final[s] = 100
			sc.Targets[s] = TargetBeh{}
		}
	}
	w := &World{Sc: sc, rng: rand.New(rand.NewSource(seed + 7)), wf: map[string][2]string{}, tgtCancel: map[string]context.CancelFunc{}}
	w.Rec = NewRecorder(sc)
	w.Probe = fakes.NewProbe(seed)
	ctx, cancelAll := context.WithCancel(context.Background())
	scc := config.ShardCountConfig{Mode: config.ShardCountRouting, LocalShardCount: int32(n), RemoteShardCount: int32(n)}
	sm := proxy.NewShardManager(nil, scc, encryption.TLSConfig{}, w.Probe)
	_ = sm.Start(ctx)
	mk := func(id, cnt, peer int) *cluster {
		return &cluster{w: w, id: id, n: cnt, peerN: peer, lastAck: map[int]int64{}, srcInc: map[int]int{}, srcLive: map[int]*fakes.ClientSide{}, scriptDone: map[int]bool{}}
	}
	w.L, w.R = mk(1, n, n), mk(2, n, n)
	obs := func(int32, int32) {}
	inbound := proxy.NewAdminServiceProxyServer("inboundAdminService", w.L, w.R, proxy.AdminServiceOverrides{}, []string{"inbound"}, obs, scc, proxy.LCMParameters{},
		proxy.RoutingParameters{OverrideShardCount: int32(n), RoutingLocalShardCount: int32(n), DirectionLabel: "inbound"}, w.Probe, sm, ctx)
	outbound := proxy.NewAdminServiceProxyServer("outboundAdminService", w.R, w.L, proxy.AdminServiceOverrides{}, []string{"outbound"}, obs, scc, proxy.LCMParameters{},
		proxy.RoutingParameters{OverrideShardCount: int32(n), RoutingLocalShardCount: int32(n), DirectionLabel: "outbound"}, w.Probe, sm, ctx)
	base := goroutineCensus()
	for i := 2; i <= n; i++ {
		go w.R.runTarget(ctx, i, inbound, sc.Targets[shardName(2, i)])
	}
	for i := 1; i <= n; i++ {
		go w.L.runTarget(ctx, i, outbound, sc.Targets[shardName(1, i)])
	}
	X := history.ClusterShardID{ClusterID: 2, ShardID: 1}
	type inc struct {
		stream string
		cancel context.CancelFunc
		done   chan struct{}
	}
	open := func(k int) *inc {
		time.Sleep(time.Microsecond)
		stream := fmt.Sprintf("R:1#%d", k)
		md := metadata.Pairs(history.MetadataKeyClientClusterID, "2", history.MetadataKeyClientShardID, "1", history.MetadataKeyServerClusterID, "1", history.MetadataKeyServerShardID, "1")
		sctx, cancel := context.WithCancel(metadata.NewIncomingContext(ctx, md))
		ss := fakes.NewServerSide(sctx, 4)
		ss.OnSend = func(m *fakes.Resp) { w.Rec.TgtRecv(stream, n, m.GetMessages()) }
		ss.OnRecv = func(m *fakes.Req) { w.Rec.TgtAck(stream, m.GetSyncReplicationState().GetInclusiveLowWatermark()) }
		x := &inc{stream: stream, cancel: cancel, done: make(chan struct{})}
		w.Rec.Mark("TGT_OPEN", stream)
		go func() {
			_ = inbound.StreamWorkflowReplicationMessages(ss)
			w.Rec.Mark("TGT_END", stream)
			close(x.done)
			cancel()
		}()
		go func() { // prompt reader, acks once a second
			var high int64
			got := false
			tk := time.NewTicker(time.Second)
			defer tk.Stop()
			for {
				select {
				case m := <-ss.Out():
					if h := m.GetMessages().GetExclusiveHighWatermark(); h > high {
						high = h
					}
					got = true
				case <-tk.C:
					if got {
						ss.Offer(&fakes.Req{Attributes: &adminservice.StreamWorkflowReplicationMessagesRequest_SyncReplicationState{
							SyncReplicationState: &replicationv1.SyncReplicationState{InclusiveLowWatermark: high}}})
					}
				case <-sctx.Done():
					return
				}
			}
		}()
		return x
	}
	first := open(1)
	time.Sleep(6 * time.Second) // every source has handed over its watermark: n-1 live receivers hold one for cluster R
	second := open(2)           // re-established while the first is still registered
	time.Sleep(5 * time.Second)
	synctest.Wait()
	first.cancel()
	time.Sleep(3 * time.Second)
	synctest.Wait()
	select {
	case <-first.done:
	default:
		v("old-incarnation-never-ended", "handler of %s has not returned", first.stream)
	}
	select {
	case <-second.done:
		v("newest-incarnation-killed", "the newest incarnation %s was ended by the proxy although nothing broke it", second.stream)
	default:
	}
	w.Rec.mu.Lock()
	replays := 0
	for _, e := range w.Rec.Events {
		if e.Kind == "TGT_RECV" && e.Stream == second.stream && len(e.IDs) == 0 {
			replays++
		}
	}
	w.Rec.mu.Unlock()
	counts["live_receivers_at_reopen"] = int64(n - 1)
	counts["replayed_watermarks_received_by_new_stream"] = int64(replays)
	if _, ok := sm.GetRemoteSendChan(X); !ok {
		v("delivery-channel-lost", "no delivery channel registered for R:1 although %s is live (%d receivers replayed their watermark when it registered)", second.stream, n-1)
	}
	// a marked task handed over for R:1 arrives on the new stream
	ns, wf := findWorkflowFor(n, 1)
	mark := "probe many"
	w.Rec.mu.Lock()
	w.Rec.tasks[mark] = &taskState{src: "L:9", orig: 1, owner: "R:1"}
	evBefore := len(w.Rec.Events)
	w.Rec.mu.Unlock()
	msg := &proxy.RoutedMessage{SourceShard: history.ClusterShardID{ClusterID: 1, ShardID: 9}, Resp: &adminservice.StreamWorkflowReplicationMessagesResponse{
		Attributes: &adminservice.StreamWorkflowReplicationMessagesResponse_Messages{Messages: &replicationv1.WorkflowReplicationMessages{ExclusiveHighWatermark: 2,
			ReplicationTasks: []*replicationv1.ReplicationTask{{SourceTaskId: 1, RawTaskInfo: &persistencespb.ReplicationTaskInfo{NamespaceId: ns, WorkflowId: wf, RunId: mark, TaskId: 1}}}}}}}
	delivered := make(chan bool, 1)
	go func() { delivered <- sm.DeliverMessagesToShardOwner(X, msg, channel.NewShutdownOnce(), w.Probe) }()
	time.Sleep(5 * time.Second)
	synctest.Wait()
	okDeliver := false
	select {
	case okDeliver = <-delivered:
	default:
	}
	where := ""
	w.Rec.mu.Lock()
	for _, e := range w.Rec.Events[evBefore:] {
		for _, m := range e.Marks {
			if m == mark {
				where = e.Stream
			}
		}
	}
	w.Rec.mu.Unlock()
	if !okDeliver || where != second.stream {
		v("probe-message-not-on-newest", "a message handed over for R:1 after it was re-established with %d live receivers replaying their watermark: accepted=%v, arrived on %q (want %s)", n-1, okDeliver, where, second.stream)
	} else {
		counts["probe_messages_on_newest"] = 1
	}
	// everything ends: nothing stays registered, no worker keeps running
	cancelAll()
	time.Sleep(25 * time.Second)
	synctest.Wait()
	if ls := sm.GetLocalShards(); len(ls) != 0 {
		v("leftover:owned-shards", "after all streams ended the shard manager still lists %d owned shards", len(ls))
	}
	if ci := sm.GetChannelInfo(); ci.TotalSendChannels != 0 || ci.TotalAckChannels != 0 {
		v("leftover:channels", "after all streams ended %d delivery channels and %d ack channels remain registered", ci.TotalSendChannels, ci.TotalAckChannels)
	}
	if left := diffCensus(base, goroutineCensus()); len(left) > 0 {
		v("leftover:worker-running", "goroutines of the proxy still alive after all streams ended: %v", left)
	}
	return
}

func TestManyReceivers(t *testing.T) {
	out := rec.Default()
	for idx, n := range []int{104, 130} {
		name := fmt.Sprintf("many-receivers/%d", n)
		if !rec.Want(idx+3, name) {
			continue
		}
		out.Begin(name, map[string]any{"shards_per_cluster": n})
		var viol []rec.Violation
		var counts map[string]int64
		t.Run("case", func(t *testing.T) {
			synctest.Test(t, func(t *testing.T) { viol, counts = runManyReceivers(n, rec.Mix(rec.Seed(), name)) })
		})
		if counts == nil {
			out.End(rec.Line{Case: name, Verdict: rec.Inconclusive, Why: "no outcome"})
			continue
		}
		out.End(rec.Line{Case: name, Viol: viol, Counts: counts, Class: name})
	}
}
