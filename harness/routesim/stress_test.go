package routesim

import (
	"context"
	"fmt"
	"strings"
	"sync"
	"sync/atomic"
	"testing"
	"time"

	"go.temporal.io/server/client/history"
	"go.temporal.io/server/common/log/tag"
	"google.golang.org/grpc/metadata"

	"github.com/temporalio/s2s-proxy/config"
	"github.com/temporalio/s2s-proxy/encryption"
	"github.com/temporalio/s2s-proxy/proxy"
	"verifharness/fakes"
	"verifharness/rec"
)

// Real-thread stress for C08 (no bubble, real scheduler, -race): windows that contain no
// log call cannot be reached by probe parking, only by running the two sides concurrently
// many times.

// registerRace: the old incarnation's UnregisterShard(X, oldTimestamp) against the new
// incarnation's RegisterShard(X). Whatever the interleaving, X must be owned afterwards.
func registerRace(rounds int) (viol []rec.Violation, counts map[string]int64) {
	counts = map[string]int64{}
	probe := fakes.NewProbe(1)
	ctx, cancel := context.WithCancel(context.Background())
	defer cancel()
	scc := config.ShardCountConfig{Mode: config.ShardCountRouting, LocalShardCount: 2, RemoteShardCount: 2}
	sm := proxy.NewShardManager(nil, scc, encryption.TLSConfig{}, probe)
	_ = sm.Start(ctx)
	X := history.ClusterShardID{ClusterID: 2, ShardID: 1}
	lost := 0
	for i := 0; i < rounds; i++ {
		old := sm.RegisterShard(X)
		var wg sync.WaitGroup
		wg.Add(2)
		start := make(chan struct{})
		go func() { defer wg.Done(); <-start; sm.UnregisterShard(X, old) }()
		var newTS time.Time
		go func() {
			defer wg.Done()
			<-start
			if i%3 == 1 {
				spin(i % 200)
			}
			newTS = sm.RegisterShard(X)
		}()
		close(start)
		wg.Wait()
		if _, ok := sm.GetLocalShards()["2:1"]; !ok {
			lost++
			if len(viol) == 0 {
				viol = append(viol, rec.Violation{Prop: "C08", Sig: "ownership-lost:stale-unregister-removed-successor",
					What: fmt.Sprintf("round %d: the previous incarnation's UnregisterShard(R:1, its own timestamp) ran concurrently with the new incarnation's RegisterShard(R:1); afterwards R:1 is not owned although the new registration (at %v) was never unregistered", i, newTS.Format(time.RFC3339Nano))})
			}
		}
		sm.UnregisterShard(X, newTS)
		if len(sm.GetLocalShards()) != 0 {
			viol = append(viol, rec.Violation{Prop: "C08", Sig: "leftover:owned-shards", What: fmt.Sprintf("round %d: shard still owned after its registration was unregistered with the matching timestamp", i)})
			break
		}
	}
	counts["register_race_rounds"] = int64(rounds)
	counts["register_race_lost"] = int64(lost)
	return
}

var sink atomic.Int64

func spin(n int) {
	for i := 0; i < n; i++ {
		sink.Add(1)
	}
}

// handlerOverlap: real handlers, incarnation B of R:1 opened while A is being cancelled.
func handlerOverlap(rounds int) (viol []rec.Violation, counts map[string]int64, inconclusive string) {
	counts = map[string]int64{}
	sc := &Scenario{Class: "fault", NL: 1, NR: 1, PeriodMS: 50, NWf: 2, Scripts: map[string][]Batch{"L:1": {{High: 100}}, "R:1": {{High: 100}}}, Final: map[string]int64{"L:1": 100, "R:1": 100},
		Targets: map[string]TargetBeh{}, Window: 8, Faults: []Fault{{Side: "none"}}}
	w := &World{Sc: sc, wf: map[string][2]string{}, tgtCancel: map[string]context.CancelFunc{}}
	w.Rec = NewRecorder(sc)
	w.Probe = fakes.NewProbe(1)
	// readiness signals of R:1's own stream pair, identified by the logger tags: both messages are
	// logged by goroutines that start only after the respective registration calls have returned
	var recvStarted, sendStarted atomic.Int64
	w.Probe.Sink = func(_ string, m string, tags []tag.Tag) {
		if strings.Contains(m, "proxyStreamReceiver sendAck started") && strings.Contains(fakes.TagString(tags), "source=(id: 2, shard: 1) target=(id: 1, shard: 1) role=receiver") {
			recvStarted.Add(1)
		}
		if strings.Contains(m, "proxyStreamSender sendReplicationMessages started") && strings.Contains(fakes.TagString(tags), "target=(id: 2, shard: 1)") {
			sendStarted.Add(1)
		}
	}
	ctx, cancelAll := context.WithCancel(context.Background())
	defer cancelAll()
	scc := config.ShardCountConfig{Mode: config.ShardCountRouting, LocalShardCount: 1, RemoteShardCount: 1}
	sm := proxy.NewShardManager(nil, scc, encryption.TLSConfig{}, w.Probe)
	_ = sm.Start(ctx)
	mk := func(id int) *cluster {
		return &cluster{w: w, id: id, n: 1, peerN: 1, lastAck: map[int]int64{}, srcInc: map[int]int{}, srcLive: map[int]*fakes.ClientSide{}, scriptDone: map[int]bool{}}
	}
	w.L, w.R = mk(1), mk(2)
	obs := func(int32, int32) {}
	inbound := proxy.NewAdminServiceProxyServer("inboundAdminService", w.L, w.R, proxy.AdminServiceOverrides{}, []string{"inbound"}, obs, scc, proxy.LCMParameters{},
		proxy.RoutingParameters{OverrideShardCount: 1, RoutingLocalShardCount: 1, DirectionLabel: "inbound"}, w.Probe, sm, ctx)
	outbound := proxy.NewAdminServiceProxyServer("outboundAdminService", w.R, w.L, proxy.AdminServiceOverrides{}, []string{"outbound"}, obs, scc, proxy.LCMParameters{},
		proxy.RoutingParameters{OverrideShardCount: 1, RoutingLocalShardCount: 1, DirectionLabel: "outbound"}, w.Probe, sm, ctx)
	// L:1 stays connected throughout and keeps broadcasting watermarks (period 50 ms) into R:1's channel
	go w.L.runTarget(ctx, 1, outbound, TargetBeh{})
	X := history.ClusterShardID{ClusterID: 2, ShardID: 1}
	type inc struct {
		cancel context.CancelFunc
		done   chan struct{}
	}
	open := func() *inc {
		md := metadata.Pairs(history.MetadataKeyClientClusterID, "2", history.MetadataKeyClientShardID, "1", history.MetadataKeyServerClusterID, "1", history.MetadataKeyServerShardID, "1")
		sctx, cancel := context.WithCancel(metadata.NewIncomingContext(ctx, md))
		ss := fakes.NewServerSide(sctx, 8)
		i := &inc{cancel: cancel, done: make(chan struct{})}
		go func() { _ = inbound.StreamWorkflowReplicationMessages(ss); close(i.done); cancel() }()
		go func() {
			for {
				select {
				case <-ss.Out():
				case <-sctx.Done():
					return
				}
			}
		}()
		return i
	}
	waitCond := func(what string, cond func() bool) bool {
		deadline := time.Now().Add(20 * time.Second)
		for !cond() {
			if time.Now().After(deadline) {
				inconclusive = "watchdog: " + what
				return false
			}
			time.Sleep(50 * time.Microsecond)
		}
		return true
	}
	for r := 0; r < rounds; r++ {
		n0, s0 := recvStarted.Load(), sendStarted.Load()
		a := open()
		if !waitCond("first incarnation did not start", func() bool { return recvStarted.Load() > n0 && sendStarted.Load() > s0 }) {
			return
		}
		n1, s1 := recvStarted.Load(), sendStarted.Load()
		var b *inc
		var wg sync.WaitGroup
		wg.Add(2)
		go func() { defer wg.Done(); spin((r * 37) % 4000); a.cancel() }()
		go func() { defer wg.Done(); spin((r * 91) % 4000); time.Sleep(time.Duration(r%7) * 20 * time.Microsecond); b = open() }()
		wg.Wait()
		if !waitCond("old incarnation's handler did not return", func() bool {
			select {
			case <-a.done:
				return true
			default:
				return false
			}
		}) {
			return
		}
		if !waitCond("new incarnation did not start", func() bool { return recvStarted.Load() > n1 && sendStarted.Load() > s1 }) {
			return
		}
		// both conditions are states, not deadlines: A has fully unwound, B has completed its registration
		time.Sleep(200 * time.Microsecond)
		select {
		case <-b.done:
			viol = append(viol, rec.Violation{Prop: "C08", Sig: "newest-incarnation-killed", What: fmt.Sprintf("round %d: the new incarnation's stream was ended by the proxy", r)})
		default:
			missing := []string{}
			if _, ok := sm.GetLocalShards()["2:1"]; !ok {
				missing = append(missing, "ownership")
			}
			if _, ok := sm.GetRemoteSendChan(X); !ok {
				missing = append(missing, "delivery-channel")
			}
			if _, ok := sm.GetLocalAckChan(X); !ok {
				missing = append(missing, "ack-channel")
			}
			if _, ok := sm.GetLocalReceiverCancelFunc(X); !ok {
				missing = append(missing, "receiver-cancel-func")
			}
			if _, ok := sm.GetActiveReceiver(X); !ok {
				missing = append(missing, "active-receiver")
			}
			if len(missing) > 0 {
				counts["overlap_rounds_with_lost_registration"]++
				if len(viol) < 3 {
					viol = append(viol, rec.Violation{Prop: "C08", Sig: "stress:registration-lost:" + strings.Join(missing, "+"),
						What: fmt.Sprintf("round %d: old incarnation fully unwound, new incarnation live and registered, yet missing for R:1: %v", r, missing)})
				}
			}
		}
		b.cancel()
		if !waitCond("new incarnation's handler did not return after cancel", func() bool {
			select {
			case <-b.done:
				return true
			default:
				return false
			}
		}) {
			return
		}
		time.Sleep(100 * time.Microsecond)
		if _, ok := sm.GetLocalShards()["2:1"]; ok {
			viol = append(viol, rec.Violation{Prop: "C08", Sig: "leftover:owned-shards", What: fmt.Sprintf("round %d: R:1 still owned after all its streams ended", r)})
			return
		}
		if _, ok := sm.GetActiveReceiver(X); ok {
			viol = append(viol, rec.Violation{Prop: "C08", Sig: "leftover:active-receiver", What: fmt.Sprintf("round %d: active receiver left for R:1 after all its streams ended", r)})
			return
		}
		if _, ok := sm.GetLocalReceiverCancelFunc(X); ok {
			viol = append(viol, rec.Violation{Prop: "C08", Sig: "leftover:receiver-cancel-func", What: fmt.Sprintf("round %d: receiver cancel function left for R:1 after all its streams ended", r)})
			return
		}
		counts["overlap_rounds"]++
	}
	return
}

func TestLifecycleStress(t *testing.T) {
	out := rec.Default()
	regRounds, ovRounds := 4000, 150
	if rec.Thorough() {
		regRounds, ovRounds = 150000, 4000
	}
	i, n := rec.Shard()
	for k := 0; k < 2; k++ {
		name := fmt.Sprintf("stress/register-race/%d.%d", i, k)
		if rec.Only() != "" && rec.Only() != name {
			continue
		}
		out.Begin(name, map[string]any{"rounds": regRounds, "child": i, "of": n})
		viol, counts := registerRace(regRounds)
		out.End(rec.Line{Case: name, Viol: viol, Counts: counts, Class: name})
	}
	name := fmt.Sprintf("stress/handler-overlap/%d", i)
	if rec.Only() == "" || rec.Only() == name {
		out.Begin(name, map[string]any{"rounds": ovRounds})
		viol, counts, inc := handlerOverlap(ovRounds)
		l := rec.Line{Case: name, Viol: viol, Counts: counts, Class: name}
		if inc != "" && len(viol) == 0 {
			l.Verdict, l.Why = rec.Inconclusive, inc
		}
		out.End(l)
	}
}
