package routesim

import (
	"fmt"
	"sort"
	"testing"
	"testing/synctest"

	"verifharness/rec"
)

// runInBubble runs one scenario in its own synctest bubble, inside a subtest: the testing
// package fails (FailNow) a test during which the race detector reported something, and that
// must end the subtest only, not the case loop (race reports are collected from GORACE logs).
func runInBubble(t *testing.T, sc *Scenario) (out *Outcome) {
	t.Run("case", func(t *testing.T) {
		synctest.Test(t, func(t *testing.T) {
			out = Run(sc)
		})
	})
	return out
}

func sampleOf(sc *Scenario, o *Outcome, maxEvents int) any {
	ev := o.Events
	if len(ev) > maxEvents {
		ev = ev[:maxEvents]
	}
	return map[string]any{"scenario": sc, "event_log_head": ev, "events_total": len(o.Events)}
}

func topProbe(p map[string]int, n int) map[string]int {
	type kv struct {
		k string
		v int
	}
	var l []kv
	for k, v := range p {
		l = append(l, kv{k, v})
	}
	sort.Slice(l, func(i, j int) bool { return l[i].v > l[j].v })
	out := map[string]int{}
	for i := 0; i < len(l) && i < n; i++ {
		out[l[i].k] = l[i].v
	}
	return out
}

// TestRoute serves C01, C02 and C03: the same generated scenarios, all three oracles.
func TestRoute(t *testing.T) {
	out := rec.Default()
	nFair, nHostile := 260, 200
	if rec.Thorough() {
		nFair, nHostile = 1800, 1800
	}
	prop := rec.Prop()
	switch prop { // each check puts its budget where its oracle bites
	case "C01":
		nFair, nHostile = nFair/2, nHostile*3/2
	case "C02", "C03":
		nFair, nHostile = nFair*3/2, nHostile/2
	}
	seed := rec.Seed()
	idx := 0
	samples := 0
	probeTotal := map[string]int{}
	run := func(class string, k int) {
		name := fmt.Sprintf("%s/%d", class, k)
		idx++
		if !rec.Want(idx, name) {
			return
		}
		var sc *Scenario
		if class == "backlog" {
			sc = GenBacklog(rec.Mix(seed, name), k)
		} else {
			sc = GenScenario(rec.Mix(seed, name), k, class, rec.Thorough())
		}
		sc.Name = name
		out.Begin(name, sc)
		o := runInBubble(t, sc)
		for k, v := range o.Probe {
			probeTotal[k] += v
		}
		l := rec.Line{Case: name, Viol: o.Viol, Counts: o.Counts}
		if o.Inconclusive != "" {
			l.Verdict, l.Why = rec.Inconclusive, o.Inconclusive
		}
		if o.Counts["src_acks_nonvacuous"] > 0 || o.Counts["tasks_delivered"] > 0 {
			l.Class = o.Sig
		}
		if len(o.Leaked) > 0 {
			l.Counts["cases_with_goroutines_left"] = 1
		}
		if samples < 1 && o.Counts["tasks"] > 3 && o.Counts["tasks"] < 12 {
			samples++
			l.Sample = sampleOf(sc, o, 60)
		}
		for i := range l.Viol {
			l.Viol[i].Witness = map[string]any{"detail": l.Viol[i].Witness, "events": lastEvents(o.Events, l.Viol[i].Witness, 80)}
		}
		out.End(l)
	}
	for k := 0; k < nFair; k++ {
		run("fair", k)
	}
	for k := 0; k < nHostile; k++ {
		run("hostile", k)
	}
	nBacklog := 6
	if rec.Thorough() {
		nBacklog = 60
	}
	for k := 0; k < nBacklog; k++ {
		run("backlog", k)
	}
	i, n := rec.Shard()
	if i == 0 {
		out.Note("probe hit table (child 0 of %d, top 25): %v", n, topProbe(probeTotal, 25))
	}
}

func lastEvents(ev []Event, witness any, n int) []Event {
	end := len(ev)
	if m, ok := witness.(map[string]any); ok {
		if at, ok := m["at_event"].(int); ok && at+1 < end {
			end = at + 1
		}
	}
	start := end - n
	if start < 0 {
		start = 0
	}
	return ev[start:end]
}
