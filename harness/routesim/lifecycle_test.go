package routesim

import (
	"context"
	"fmt"
	"math/rand"
	"sort"
	"strings"
	"sync"
	"testing"
	"testing/synctest"
	"time"

	"go.temporal.io/server/api/adminservice/v1"
	persistencespb "go.temporal.io/server/api/persistence/v1"
	replicationv1 "go.temporal.io/server/api/replication/v1"
	"go.temporal.io/server/client/history"
	"go.temporal.io/server/common/channel"
	"google.golang.org/grpc/metadata"

	"github.com/temporalio/s2s-proxy/config"
	"github.com/temporalio/s2s-proxy/encryption"
	"github.com/temporalio/s2s-proxy/proxy"
	"verifharness/fakes"
	"verifharness/rec"
)

// C08: successive incarnations of one shard's stream opened with overlap.

type lifeCase struct {
	Name     string   `json:"name"`
	Overlaps []string `json:"overlaps"` // one per re-open: healthy | after-cancel | cleanup@<log message> | after-return
	OldEndMS []int    `json:"old_end_ms"` // for "healthy": when the previous incarnation's context is cancelled after the new one opened (0 = with the next re-open / at the end)
	ParkMS   int      `json:"park_ms"`
	Seed     int64    `json:"seed"`
	LateL2MS int      `json:"late_l2_ms"` // L:2 connects this long after the last re-open (fresh target for the replay clause)
	// Stall: the first incarnation's peer never reads and source L:1 has 130 tasks for R:1, so that the
	// sender's 100-slot delivery channel fills and a deliverer is blocked on it (holding the OLD channel)
	// while the next incarnation replaces the registration and the old one then closes that channel
	Stall bool `json:"stall,omitempty"`
	// QuietReopen: once the scripts are done and nothing flows any more, R:1 is re-opened once more while its
	// previous incarnation is still registered: whatever the new stream receives right away can only be the
	// replay of the live receivers' last watermarks (the sources' period is 120 s)
	QuietReopen bool `json:"quiet_reopen,omitempty"`
}

var cleanupPoints = []string{
	"Remove local ack channel for shard",
	"Remove local receiver cancel function for shard",
	"proxyStreamReceiver Run finished",
	"UnregisterShard",
	"Removed remote send channel for shard",
	"proxyStreamSender Run finished",
	"proxyStreamSender recvAck finished",
	"proxyStreamReceiver recvReplicationMessages finished",
	"streamRouting stopped",
}

type incarnation struct {
	n       int
	stream  string
	cancel  context.CancelFunc
	done    chan struct{}
	ss      *fakes.ServerSide
}

func runLifecycle(c lifeCase) (viol []rec.Violation, counts map[string]int64, log []string) {
	counts = map[string]int64{}
	var vmu sync.Mutex
	v := func(sig, f string, a ...any) {
		vmu.Lock()
		viol = append(viol, rec.Violation{Prop: "C08", Sig: sig, What: fmt.Sprintf(f, a...)})
		vmu.Unlock()
	}
	logf := func(f string, a ...any) {
		vmu.Lock()
		log = append(log, fmt.Sprintf("%6dms ", time.Since(t0).Milliseconds())+fmt.Sprintf(f, a...))
		vmu.Unlock()
	}
	t0 = time.Now()
	rng := rand.New(rand.NewSource(c.Seed))
	sc := &Scenario{Class: "fault", Seed: c.Seed, NL: 2, NR: 2, PeriodMS: 120000, WatermarkOnConnect: true, NWf: 6, Scripts: map[string][]Batch{}, Final: map[string]int64{}, Targets: map[string]TargetBeh{}, Window: 4,
		Faults: []Fault{{Side: "none"}}} // "faults": duplicates are legitimate across incarnations
	for _, s := range []string{"L:1", "L:2", "R:1", "R:2"} {
		// an early watermark-only batch (so every receiver has a last watermark), then tasks spread over the case
		sc.Scripts[s] = []Batch{{High: 100, WaitMS: 100}}
		id := int64(100)
		for i := 0; i < 9; i++ {
			sc.Scripts[s] = append(sc.Scripts[s], Batch{IDs: []int64{id}, High: id + 1, WaitMS: 300 + rng.Intn(900)})
			id++
			// a watermark-only batch after every task: a receiver that (re)started has a last watermark soon
			sc.Scripts[s] = append(sc.Scripts[s], Batch{High: id, WaitMS: 50})
		}
		if c.Stall && s == "L:1" {
			sc.Scripts[s] = []Batch{{High: 100, WaitMS: 100}}
			for id = 100; id < 230; id++ {
				sc.Scripts[s] = append(sc.Scripts[s], Batch{IDs: []int64{id}, High: id + 1, WaitMS: 10})
			}
			sc.Scripts[s] = append(sc.Scripts[s], Batch{High: id, WaitMS: 50})
		}
		sc.Final[s] = id
		sc.Targets[s] = TargetBeh{PerTaskMS: 100}
	}
	w := &World{Sc: sc, rng: rand.New(rand.NewSource(c.Seed + 7)), wf: map[string][2]string{}, tgtCancel: map[string]context.CancelFunc{}}
	// tasks of the R sources all belong to L:1, so that the late registration of L:2 (the fresh target
	// of the replay clause) does not hold the R receivers in their hand-off retry loop
	pns, pwf := findWorkflowFor(2, 1)
	for _, s := range []string{"R:1", "R:2"} {
		for id := int64(100); id < 120; id++ {
			w.wf[fmt.Sprintf("%s/%d", s, id)] = [2]string{pns, pwf}
		}
	}
	if c.Stall {
		for id := int64(100); id < 240; id++ {
			w.wf[fmt.Sprintf("L:1/%d", id)] = [2]string{pns, pwf} // every task of L:1 belongs to R:1
		}
	}
	w.Rec = NewRecorder(sc)
	w.Probe = fakes.NewProbe(c.Seed)
	ctx, cancelAll := context.WithCancel(context.Background())
	scc := config.ShardCountConfig{Mode: config.ShardCountRouting, LocalShardCount: 2, RemoteShardCount: 2}
	sm := proxy.NewShardManager(nil, scc, encryption.TLSConfig{}, w.Probe)
	_ = sm.Start(ctx)
	mk := func(id, n, peer int) *cluster {
		return &cluster{w: w, id: id, n: n, peerN: peer, lastAck: map[int]int64{}, srcInc: map[int]int{}, srcLive: map[int]*fakes.ClientSide{}, scriptDone: map[int]bool{}}
	}
	w.L, w.R = mk(1, 2, 2), mk(2, 2, 2)
	obs := func(int32, int32) {}
	inbound := proxy.NewAdminServiceProxyServer("inboundAdminService", w.L, w.R, proxy.AdminServiceOverrides{}, []string{"inbound"}, obs, scc, proxy.LCMParameters{},
		proxy.RoutingParameters{OverrideShardCount: 2, RoutingLocalShardCount: 2, DirectionLabel: "inbound"}, w.Probe, sm, ctx)
	outbound := proxy.NewAdminServiceProxyServer("outboundAdminService", w.R, w.L, proxy.AdminServiceOverrides{}, []string{"outbound"}, obs, scc, proxy.LCMParameters{},
		proxy.RoutingParameters{OverrideShardCount: 2, RoutingLocalShardCount: 2, DirectionLabel: "outbound"}, w.Probe, sm, ctx)
	base := goroutineCensus()

	X := history.ClusterShardID{ClusterID: 2, ShardID: 1}
	// ordinary shards
	go w.R.runTarget(ctx, 2, inbound, sc.Targets["R:2"])
	go w.L.runTarget(ctx, 1, outbound, sc.Targets["L:1"])

	// X = R:1 is driven by hand: open(n) starts incarnation n of its stream and a reading/acking peer
	open := func(n int) *incarnation {
		time.Sleep(time.Microsecond) // registration timestamps are identities: never two in one instant
		stream := fmt.Sprintf("R:1#%d", n)
		md := metadata.Pairs(history.MetadataKeyClientClusterID, "2", history.MetadataKeyClientShardID, "1", history.MetadataKeyServerClusterID, "1", history.MetadataKeyServerShardID, "1")
		sctx, cancel := context.WithCancel(metadata.NewIncomingContext(ctx, md))
		ss := fakes.NewServerSide(sctx, 4)
		ss.OnSend = func(m *fakes.Resp) { w.Rec.TgtRecv(stream, 2, m.GetMessages()) }
		ss.OnRecv = func(m *fakes.Req) { w.Rec.TgtAck(stream, m.GetSyncReplicationState().GetInclusiveLowWatermark()) }
		inc := &incarnation{n: n, stream: stream, cancel: cancel, done: make(chan struct{}), ss: ss}
		w.Rec.Mark("TGT_OPEN", stream)
		logf("open %s", stream)
		go func() {
			_ = inbound.StreamWorkflowReplicationMessages(ss)
			w.Rec.Mark("TGT_END", stream)
			logf("handler of %s returned", stream)
			close(inc.done)
			cancel()
		}()
		go func() { // prompt reader that acks everything it has seen once a second
			if c.Stall && n == 1 { // ... except the stalled first incarnation, which never reads
				<-sctx.Done()
				return
			}
			var high int64
			got := false
			tk := time.NewTicker(time.Second)
			defer tk.Stop()
			for {
				select {
				case m := <-ss.Out():
					if h := m.GetMessages().GetExclusiveHighWatermark(); h > high {
						high = h
					}
					got = true
				case <-tk.C:
					if got {
						ss.Offer(&fakes.Req{Attributes: &adminservice.StreamWorkflowReplicationMessagesRequest_SyncReplicationState{
							SyncReplicationState: &replicationv1.SyncReplicationState{InclusiveLowWatermark: high}}})
					}
				case <-sctx.Done():
					return
				}
			}
		}()
		return inc
	}

	incs := []*incarnation{open(1)}
	time.Sleep(3 * time.Second) // let traffic flow on the first incarnation
	for i, how := range c.Overlaps {
		old := incs[len(incs)-1]
		n := len(incs) + 1
		switch {
		case how == "healthy":
			incs = append(incs, open(n))
			if d := c.OldEndMS[i]; d > 0 {
				o := old
				time.AfterFunc(time.Duration(d)*time.Millisecond, func() { logf("cancel %s", o.stream); o.cancel() })
			}
		case how == "after-cancel":
			logf("cancel %s", old.stream)
			old.cancel()
			incs = append(incs, open(n))
		case strings.HasPrefix(how, "cleanup@"):
			// park the old incarnation's unwinding at one of its cleanup log points, open the new one meanwhile
			msg := strings.TrimPrefix(how, "cleanup@")
			armed := true
			var pmu sync.Mutex
			w.Probe.OnHit = func(m string, _ int) {
				pmu.Lock()
				hit := armed && strings.Contains(m, msg)
				if hit {
					armed = false
				}
				pmu.Unlock()
				if hit {
					noPark := false
					for _, np := range w.Probe.NoPark {
						if strings.Contains(m, np) {
							noPark = true
						}
					}
					logf("old incarnation parked at %q (lock held: %v)", msg, noPark)
					if !noPark {
						time.Sleep(time.Duration(c.ParkMS) * time.Millisecond)
					}
				}
			}
			logf("cancel %s", old.stream)
			old.cancel()
			time.Sleep(time.Duration(1+rng.Intn(c.ParkMS/2+1)) * time.Millisecond)
			incs = append(incs, open(n))
			time.Sleep(time.Duration(c.ParkMS+50) * time.Millisecond)
			w.Probe.OnHit = nil
		case how == "after-return":
			logf("cancel %s", old.stream)
			old.cancel()
			<-old.done
			incs = append(incs, open(n))
		}
		time.Sleep(time.Duration(500+rng.Intn(2500)) * time.Millisecond)
	}
	// every older incarnation is ended by now at the latest
	for _, o := range incs[:len(incs)-1] {
		o.cancel()
	}
	newest := incs[len(incs)-1]
	// let the scripts finish and the system go quiet, so that what L:2 receives right after
	// registering can only be replayed watermarks (the sources' period is 120 s)
	for i := 0; i < 120 && !(w.R.scriptsDone() && w.L.scriptDoneFor(1)); i++ {
		time.Sleep(time.Second)
	}
	time.Sleep(time.Duration(5000+c.LateL2MS) * time.Millisecond)
	if c.QuietReopen {
		prev := newest
		qOpen := time.Since(w.Rec.start).Milliseconds()
		incs = append(incs, open(len(incs)+1))
		newest = incs[len(incs)-1]
		time.Sleep(1500 * time.Millisecond)
		synctest.Wait()
		w.Rec.mu.Lock()
		got := 0
		for _, e := range w.Rec.Events {
			if e.Kind == "TGT_RECV" && e.Stream == newest.stream && len(e.IDs) == 0 && e.VTms >= qOpen && e.VTms <= qOpen+900 {
				got++
			}
		}
		// live receivers that route to cluster R and hold a last watermark: sources of cluster L whose stream has
		// been up since well before this re-open (the receiver that is re-created together with R:1's stream
		// holds none yet) and that have handed over a watermark-only batch
		l2HasWatermark := false
		opened, ended := map[string]int64{}, map[string]bool{}
		for _, e := range w.Rec.Events {
			switch {
			case e.Kind == "SRC_OPEN" && e.Stream[0] == 'L':
				opened[e.Stream] = e.VTms
			case e.Kind == "SRC_END":
				ended[e.Stream] = true
			}
		}
		for _, e := range w.Rec.Events {
			if e.Kind == "SRC_SEND" && e.Stream[0] == 'L' && len(e.IDs) == 0 && e.VTms < qOpen-5 && !ended[e.Stream] && opened[e.Stream] < qOpen-2000 {
				if _, ok := opened[e.Stream]; ok {
					l2HasWatermark = true
				}
			}
		}
		srcs := map[string]int{}
		for _, e := range w.Rec.Events {
			if e.Kind == "SRC_SEND" {
				srcs[e.Stream]++
			}
		}
		logf("quiet re-open: %d watermark-only messages on %s within 900 ms; source sends so far %v", got, newest.stream, srcs)
		w.Rec.mu.Unlock()
		if l2HasWatermark {
			counts["quiet_reopen_replays_expected"]++
			if got == 0 {
				v("watermark-replay-missing:reopened-shard", "R:1 was re-opened as %s while %s was still registered and nothing was flowing; the new stream received no replayed watermark within 900 ms although a live receiver of a cluster-L source holds one", newest.stream, prev.stream)
			} else {
				counts["quiet_reopen_replays_seen"]++
			}
		}
		logf("cancel %s", prev.stream)
		prev.cancel()
		time.Sleep(3 * time.Second)
	}
	// fresh target L:2 registers now: every active receiver routing to cluster L must replay its last watermark
	l2Open := time.Since(w.Rec.start).Milliseconds()
	go w.L.runTarget(ctx, 2, outbound, sc.Targets["L:2"])
	time.Sleep(12 * time.Second)
	synctest.Wait()

	// ---- oracle with the newest incarnation live
	for _, o := range incs[:len(incs)-1] {
		select {
		case <-o.done:
		default:
			v("old-incarnation-never-ended", "handler of %s has not returned although its context was cancelled long ago", o.stream)
		}
	}
	select {
	case <-newest.done:
		v("newest-incarnation-killed", "the newest incarnation %s was ended by the proxy (its stream returned) although nothing broke it", newest.stream)
	default:
	}
	if _, ok := sm.GetLocalShards()["2:1"]; !ok {
		v("ownership-lost", "shard R:1 is not registered as owned although its newest stream %s is live (local shards: %v)", newest.stream, sm.GetLocalShards())
	}
	if _, ok := sm.GetRemoteSendChan(X); !ok {
		v("delivery-channel-lost", "no delivery channel registered for R:1 although %s is live", newest.stream)
	}
	if _, ok := sm.GetLocalAckChan(X); !ok {
		v("ack-channel-lost", "no acknowledgement channel registered for source R:1 although %s is live", newest.stream)
	}
	if _, ok := sm.GetLocalReceiverCancelFunc(X); !ok {
		v("receiver-cancel-func-lost", "no receiver cancel function registered for R:1 although %s is live (a later incarnation could not terminate this receiver)", newest.stream)
	}
	if ar, ok := sm.GetActiveReceiver(X); !ok {
		v("active-receiver-lost", "no active receiver registered for source R:1 although %s is live (no watermark replay to late targets)", newest.stream)
	} else if ar.GetSourceShardID() != X {
		v("active-receiver-wrong", "active receiver for R:1 reports source %v", ar.GetSourceShardID())
	}
	// behavioural probe 1: a marked task handed to the shard manager for X arrives on the newest stream
	mark := "probe 1"
	w.Rec.mu.Lock()
	w.Rec.tasks[mark] = &taskState{src: "L:9", orig: 1, owner: "R:1"}
	evBefore := len(w.Rec.Events)
	w.Rec.mu.Unlock()
	ns, wf := findWorkflowFor(2, 1)
	probeMsg := &proxy.RoutedMessage{SourceShard: history.ClusterShardID{ClusterID: 1, ShardID: 9}, Resp: &adminservice.StreamWorkflowReplicationMessagesResponse{
		Attributes: &adminservice.StreamWorkflowReplicationMessagesResponse_Messages{Messages: &replicationv1.WorkflowReplicationMessages{ExclusiveHighWatermark: 2,
			ReplicationTasks: []*replicationv1.ReplicationTask{{SourceTaskId: 1, RawTaskInfo: &persistencespb.ReplicationTaskInfo{NamespaceId: ns, WorkflowId: wf, RunId: mark, TaskId: 1}}}}}}}
	sd := channel.NewShutdownOnce()
	okDeliver := sm.DeliverMessagesToShardOwner(X, probeMsg, sd, w.Probe)
	time.Sleep(3 * time.Second)
	synctest.Wait()
	if !okDeliver {
		v("probe-message-undeliverable", "DeliverMessagesToShardOwner(R:1) reported no owner although %s is live", newest.stream)
	} else {
		where := ""
		w.Rec.mu.Lock()
		for _, e := range w.Rec.Events[evBefore:] {
			for _, m := range e.Marks {
				if m == mark {
					where = e.Stream
				}
			}
		}
		w.Rec.mu.Unlock()
		if where != newest.stream {
			v("probe-message-misrouted", "a message handed over for R:1 was accepted but arrived on %q, not on the newest stream %s", where, newest.stream)
		} else {
			counts["probe_messages_on_newest"] = 1
		}
	}
	// behavioural probe 2: the ack channel registered for source R:1 has a live consumer
	if ch, ok := sm.GetLocalAckChan(X); ok {
		okAck := sm.DeliverAckToShardOwner(X, &proxy.RoutedAck{TargetShard: history.ClusterShardID{ClusterID: 1, ShardID: 1},
			Req: &adminservice.StreamWorkflowReplicationMessagesRequest{Attributes: &adminservice.StreamWorkflowReplicationMessagesRequest_SyncReplicationState{
				SyncReplicationState: &replicationv1.SyncReplicationState{InclusiveLowWatermark: 100}}}}, sd, w.Probe, 100, false)
		time.Sleep(2 * time.Second)
		synctest.Wait()
		if !okAck {
			v("probe-ack-undeliverable", "DeliverAckToShardOwner(R:1) failed although %s is live", newest.stream)
		} else if len(ch) != 0 {
			v("ack-channel-has-no-consumer", "the acknowledgement channel registered for R:1 is not being read (%d queued): it belongs to a dead incarnation", len(ch))
		} else {
			counts["probe_acks_consumed"] = 1
		}
	}
	// watermark replay to the fresh target L:2: one watermark-only message per live R receiver right after it opened
	w.Rec.mu.Lock()
	replays := 0
	for _, e := range w.Rec.Events {
		if e.Kind == "TGT_RECV" && baseOf(e.Stream) == "L:2" && len(e.IDs) == 0 && e.VTms >= l2Open && e.VTms <= l2Open+900 {
			replays++
		}
	}
	// natural traffic after the last re-open reaches the newest incarnation, and its source side is acked
	recvNewest, ackNewest, recvOldAfterEnd := 0, 0, 0
	ended := map[string]bool{}
	for _, e := range w.Rec.Events {
		if e.Kind == "TGT_END" {
			ended[e.Stream] = true
		}
		if e.Kind == "TGT_RECV" && e.Stream == newest.stream {
			recvNewest++
		}
		if e.Kind == "TGT_RECV" && baseOf(e.Stream) == "R:1" && ended[e.Stream] {
			recvOldAfterEnd++
		}
		if e.Kind == "SRC_ACK" && baseOf(e.Stream) == "R:1" {
			ackNewest++
		}
	}
	w.Rec.mu.Unlock()
	// expected: one replay from each R source whose current stream incarnation has handed over a
	// watermark-only batch before L:2 registered (only then does its receiver hold a last watermark)
	expect := 0
	w.Rec.mu.Lock()
	lastInc := map[string]string{}
	for _, e := range w.Rec.Events {
		if e.Kind == "SRC_OPEN" && e.Stream[0] == 'R' && e.VTms < l2Open {
			lastInc[baseOf(e.Stream)] = e.Stream
		}
	}
	for _, e := range w.Rec.Events {
		if e.Kind == "SRC_SEND" && len(e.IDs) == 0 && e.VTms < l2Open-5 && lastInc[baseOf(e.Stream)] == e.Stream {
			expect++
			delete(lastInc, baseOf(e.Stream))
		}
	}
	w.Rec.mu.Unlock()
	counts["replays_expected"] = int64(expect)
	if replays < expect {
		v("watermark-replay-missing", "fresh target L:2 received %d replayed watermarks right after registering, expected %d (one from each live receiver that holds a last watermark)", replays, expect)
	} else {
		counts["replays_seen"] = int64(replays)
	}
	if recvNewest == 0 {
		v("newest-stream-starved", "nothing was ever sent on the newest incarnation %s", newest.stream)
	}
	counts["sends_to_incarnation_after_its_end"] = int64(recvOldAfterEnd)

	// ---- all streams end
	cancelAll()
	time.Sleep(20 * time.Second)
	synctest.Wait()
	if ls := sm.GetLocalShards(); len(ls) != 0 {
		v("leftover:owned-shards", "after all streams ended the shard manager still lists owned shards %v", keysOf(ls))
	}
	if ci := sm.GetChannelInfo(); ci.TotalSendChannels != 0 || ci.TotalAckChannels != 0 {
		v("leftover:channels", "after all streams ended %d delivery channels and %d ack channels remain registered", ci.TotalSendChannels, ci.TotalAckChannels)
	}
	for _, s := range []history.ClusterShardID{{ClusterID: 1, ShardID: 1}, {ClusterID: 1, ShardID: 2}, {ClusterID: 2, ShardID: 1}, {ClusterID: 2, ShardID: 2}} {
		if _, ok := sm.GetActiveReceiver(s); ok {
			v("leftover:active-receiver", "after all streams ended an active receiver is still registered for %v", s)
		}
		if _, ok := sm.GetLocalReceiverCancelFunc(s); ok {
			v("leftover:receiver-cancel-func", "after all streams ended a receiver cancel function is still registered for %v", s)
		}
	}
	if left := diffCensus(base, goroutineCensus()); len(left) > 0 {
		v("leftover:worker-running", "goroutines of the proxy still alive after all streams ended: %v", left)
	}
	counts["incarnations"] = int64(len(incs))
	for k, n := range w.Probe.HitTable() {
		if strings.HasPrefix(k, "Failed to deliver messages to local shard owner") {
			counts["deliveries_that_hit_a_closed_channel"] += int64(n)
		}
	}
	return
}

var t0 time.Time

func keysOf[V any](m map[string]V) []string {
	var k []string
	for x := range m {
		k = append(k, x)
	}
	sort.Strings(k)
	return k
}

// findWorkflowFor returns a (namespace, workflow) pair owned by the given shard under n shards.
func findWorkflowFor(n, shard int) (string, string) {
	for i := 0; ; i++ {
		wf := fmt.Sprintf("probe-wf-%d", i)
		if int(farmOwner("ns-p", wf, n)) == shard {
			return "ns-p", wf
		}
	}
}

func TestLifecycle(t *testing.T) {
	out := rec.Default()
	var cases []lifeCase
	kinds := []string{"healthy", "after-cancel", "after-return"}
	for _, p := range cleanupPoints {
		kinds = append(kinds, "cleanup@"+p)
	}
	// single re-open: every kind x a few timings; then chains of 2-3 re-opens
	for _, k := range kinds {
		for _, park := range []int{5, 200, 1500} {
			for _, oldEnd := range []int{0, 50, 2000} {
				if k != "healthy" && oldEnd != 0 {
					continue
				}
				if !strings.HasPrefix(k, "cleanup@") && park != 200 {
					continue
				}
				cases = append(cases, lifeCase{Overlaps: []string{k}, OldEndMS: []int{oldEnd}, ParkMS: park, LateL2MS: 1000})
			}
		}
	}
	// a deliverer blocked on the old incarnation's full channel while the registration is replaced
	for _, oldEnd := range []int{300, 2500, 9000} {
		cases = append(cases, lifeCase{Stall: true, Overlaps: []string{"healthy"}, OldEndMS: []int{oldEnd}, ParkMS: 200, LateL2MS: 1000})
	}
	cases = append(cases, lifeCase{Stall: true, Overlaps: []string{"healthy", "healthy"}, OldEndMS: []int{4000, 500}, ParkMS: 200, LateL2MS: 1000},
		lifeCase{Stall: true, Overlaps: []string{"healthy", "after-cancel"}, OldEndMS: []int{1500, 0}, ParkMS: 200, LateL2MS: 1000})
	nChains := 150
	if rec.Thorough() {
		nChains = 6000
	}
	rng := rand.New(rand.NewSource(rec.Seed()))
	for i := 0; i < nChains; i++ {
		m := 2 + rng.Intn(2)
		c := lifeCase{ParkMS: []int{5, 100, 1000}[rng.Intn(3)], LateL2MS: 500 + rng.Intn(3000)}
		for j := 0; j < m; j++ {
			c.Overlaps = append(c.Overlaps, kinds[rng.Intn(len(kinds))])
			c.OldEndMS = append(c.OldEndMS, []int{0, 30, 700, 3000}[rng.Intn(4)])
		}
		cases = append(cases, c)
	}
	sampled := 0
	for idx, c := range cases {
		c.Seed = rec.Mix(rec.Seed(), fmt.Sprint(idx))
		c.QuietReopen = idx%3 == 1 && !c.Stall
		c.Name = fmt.Sprintf("life/%d/%s", idx, strings.Join(c.Overlaps, "+"))
		if c.QuietReopen {
			c.Name += "/quiet-reopen"
		}
		if c.Stall {
			c.Name += "/stalled-first"
		}
		if !rec.Want(idx, c.Name) {
			continue
		}
		out.Begin(c.Name, c)
		var viol []rec.Violation
		var counts map[string]int64
		var log []string
		t.Run("case", func(t *testing.T) {
			synctest.Test(t, func(t *testing.T) { viol, counts, log = runLifecycle(c) })
		})
		if counts == nil {
			out.End(rec.Line{Case: c.Name, Verdict: rec.Inconclusive, Why: "no outcome"})
			continue
		}
		counts["overlap_cases"] = 1
		l := rec.Line{Case: c.Name, Viol: viol, Counts: counts, Class: strings.Join(c.Overlaps, "+") + fmt.Sprint(c.OldEndMS, c.ParkMS, c.Stall)}
		for i := range l.Viol {
			l.Viol[i].Witness = map[string]any{"case": c, "log": log}
		}
		if sampled < 2 && len(c.Overlaps) > 1 {
			sampled++
			l.Sample = map[string]any{"case": c, "log": log, "result": counts}
		}
		out.End(l)
	}
}
