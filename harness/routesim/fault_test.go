package routesim

import (
	"embed"
	"encoding/json"
	"fmt"
	"hash/fnv"
	"sort"
	"strings"
	"testing"

	"verifharness/rec"
)

func cloneScenario(sc *Scenario) *Scenario {
	b, _ := json.Marshal(sc)
	var c Scenario
	_ = json.Unmarshal(b, &c)
	return &c
}

func mineByName(name string) bool {
	if o := rec.Only(); o != "" {
		return o == name
	}
	i, n := rec.Shard()
	h := fnv.New32a()
	h.Write([]byte(name))
	return int(h.Sum32()%uint32(n)) == i
}

// TestFault serves C04: for base scenarios, break each stream right after each of its
// boundary events (both fault sides), then let everything reconnect; the C01 oracle runs
// across incarnations.
//go:embed pinned/*.json
var pinnedFS embed.FS

func TestFault(t *testing.T) {
	out := rec.Default()
	bases, doubles := 6, 0
	reconnects := []int{0, 500, 3000}
	if rec.Thorough() {
		bases, doubles = 40, 6000
	}
	seed := rec.Seed()
	resume := resumeState{after: rec.ResumeAfter()}
	samples := 0
	// pinned scenarios: witnesses of recorded findings that the generated quick tier does not reach (double
	// faults), replayed from their descriptors so that every run shows whether the finding is still there
	if ents, err := pinnedFS.ReadDir("pinned"); err == nil {
		for _, e := range ents {
			b, err := pinnedFS.ReadFile("pinned/" + e.Name())
			if err != nil {
				continue
			}
			sc := &Scenario{}
			if json.Unmarshal(b, sc) != nil {
				continue
			}
			name := "pinned/" + strings.TrimSuffix(e.Name(), ".json")
			if !mineByName(name) || !resume.want(name) {
				continue
			}
			sc.Name = name
			out.Begin(name, sc)
			o := runInBubble(t, sc)
			if o == nil {
				out.End(rec.Line{Case: name, Verdict: rec.Inconclusive, Why: "no outcome"})
				continue
			}
			o.Counts["pinned_scenarios_run"] = 1
			l := rec.Line{Case: name, Viol: retag(o.Viol), Counts: o.Counts, Class: o.Sig}
			for i := range l.Viol {
				l.Viol[i].Witness = map[string]any{"detail": l.Viol[i].Witness, "events": lastEvents(o.Events, l.Viol[i].Witness, 120)}
			}
			out.End(l)
		}
	}
	for b := 0; b <= bases; b++ {
		base := GenFaultBase(rec.Mix(seed, fmt.Sprintf("faultbase/%d", b)), b)
		base.Name = fmt.Sprintf("base/%d", b)
		if b == bases {
			// one more base: a target that falls more than a thousand entries behind after its first acknowledgements
			// (the sender's proxy-id table wraps and grows with a non-zero head) - breaks while that backlog is held
			base = GenBacklog(rec.Mix(seed, "faultbase/backlog"), 0)
			base.Name = "base/backlog"
		}
		// the backlog base is explored with the quick tier's position set in both tiers (its runs are long)
		full := rec.Thorough() && b < bases
		// every child runs the base once to learn the event counts (its own case only in child 0)
		o0 := runInBubble(t, base)
		if o0 == nil {
			continue
		}
		if mineByName(base.Name) && resume.want(base.Name) {
			out.Begin(base.Name, base)
			l := rec.Line{Case: base.Name, Viol: retag(o0.Viol), Counts: o0.Counts, Class: o0.Sig}
			out.End(l)
		}
		// positions: per shard, per kind, 1..count
		type pos struct {
			stream, kind string
			n         int
		}
		cnt := map[string]int{}
		for _, e := range o0.Events {
			switch e.Kind {
			case "TGT_RECV", "TGT_ACK", "SRC_SEND", "SRC_ACK":
				cnt[baseOf(e.Stream)+"|"+e.Kind]++
			}
		}
		var keys []string
		for k := range cnt {
			keys = append(keys, k)
		}
		sort.Strings(keys)
		var single []Fault
		for _, k := range keys {
			parts := strings.Split(k, "|")
			max := cnt[k]
			if max > 14 && !full {
				max = 14 // periodic acks/keep-alives repeat: later positions add little
			}
			if max > 40 {
				max = 40
			}
			for n := 1; n <= max; n++ {
				for _, side := range []string{"target", "source"} {
					for ri, rc := range reconnects {
						if !full && ri != n%len(reconnects) {
							continue
						}
						single = append(single, Fault{Side: side, Stream: parts[0], Kind: parts[1], N: n, ReconnectMS: rc})
					}
				}
			}
		}
		parkWindow := false
		runFault := func(name string, fs []Fault) {
			if !mineByName(name) || !resume.want(name) {
				return
			}
			sc := cloneScenario(base)
			sc.Name = name
			sc.Faults = fs
			if parkWindow {
				sc.ParkAt = map[string]int{"UnregisterShard": 1500}
			}
			out.Begin(name, sc)
			o := runInBubble(t, sc)
			if o == nil {
				out.End(rec.Line{Case: name, Verdict: rec.Inconclusive, Why: "no outcome"})
				return
			}
			fired := int64(0)
			for _, e := range o.Events {
				if strings.HasPrefix(e.Kind, "FAULT_") {
					fired++
				}
			}
			o.Counts["faults_fired"] = fired
			o.Counts["faults_planned"] = int64(len(fs))
			if o.Counts["tasks"] > 0 && o.Counts["tasks"] == o.Counts["tasks_confirmed"] {
				o.Counts["runs_fully_recovered"] = 1
			}
			l := rec.Line{Case: name, Viol: retag(o.Viol), Counts: o.Counts}
			if fired > 0 {
				l.Class = o.Sig
			}
			if samples < 1 && fired > 0 {
				samples++
				l.Sample = sampleOf(sc, o, 80)
			}
			for i := range l.Viol {
				l.Viol[i].Witness = map[string]any{"detail": l.Viol[i].Witness, "events": lastEvents(o.Events, l.Viol[i].Witness, 120)}
			}
			out.End(l)
		}
		for fi, f := range single {
			runFault(fmt.Sprintf("b%d/%s/%s/%s/%d/r%d", b, f.Side, f.Stream, f.Kind, f.N, f.ReconnectMS), []Fault{f})
			// the same break with the dying sender held for 1.5 s between closing its delivery channel and
			// deregistering it: hand-offs for that target land on the closed, still registered channel
			if f.Side == "target" && (full || fi%4 == 0) {
				parkWindow = true
				runFault(fmt.Sprintf("b%d/%s/%s/%s/%d/r%d/closed-channel-window", b, f.Side, f.Stream, f.Kind, f.N, f.ReconnectMS), []Fault{f})
				parkWindow = false
			}
		}
		// double faults: a second break during the recovery from the first
		if doubles > 0 && len(single) > 1 && b < bases {
			per := doubles / bases
			for d := 0; d < per; d++ {
				h := rec.Mix(seed, fmt.Sprintf("double/%d/%d", b, d))
				f1 := single[int(h%int64(len(single)))]
				f2 := single[int((h/7919)%int64(len(single)))]
				f2.N += f1.N // counted over the whole run, so it falls after the first break
				runFault(fmt.Sprintf("b%d/double/%d", b, d), []Fault{f1, f2})
			}
		}
	}
}

// retag: under faults the ack oracle reports as C04; keep only what C04 states (acks), other
// oracles' clauses are specified for failure-free runs.
func retag(v []rec.Violation) []rec.Violation {
	var out []rec.Violation
	for _, x := range v {
		if x.Prop == "C04" || x.Prop == "C01" {
			out = append(out, x)
		}
	}
	return out
}

type resumeState struct {
	after string
}

func (r *resumeState) want(name string) bool {
	if r.after == "" {
		return true
	}
	if name == r.after {
		r.after = ""
	}
	return false
}
