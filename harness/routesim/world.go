// Package routesim: the real routing-mode stream handlers (proxyStreamSender /
// proxyStreamReceiver / shard manager) between two fake Temporal clusters, in virtual time.
// This file holds the scenario description, the fake clusters and the recorder with the
// online oracles for C01, C02, C03 and C04.
package routesim

import (
	"context"
	"fmt"
	"math/rand"
	"sort"
	"strings"
	"sync"
	"time"

	farm "github.com/dgryski/go-farm"
	enumsspb "go.temporal.io/server/api/enums/v1"
	"go.temporal.io/server/api/adminservice/v1"
	persistencespb "go.temporal.io/server/api/persistence/v1"
	replicationv1 "go.temporal.io/server/api/replication/v1"
	"go.temporal.io/server/client/history"
	"google.golang.org/grpc"
	"google.golang.org/grpc/codes"
	"google.golang.org/grpc/metadata"
	"google.golang.org/grpc/status"
	"google.golang.org/protobuf/proto"
	"google.golang.org/protobuf/types/known/timestamppb"

	"verifharness/fakes"
	"verifharness/rec"
)

// ---------------------------------------------------------------------------------------
// scenario

type Batch struct {
	IDs    []int64 `json:"ids,omitempty"` // empty => watermark-only batch
	High   int64   `json:"high"`
	WaitMS int     `json:"wait_ms"`
}

type TargetBeh struct {
	ConnectDelayMS int  `json:"connect_delay_ms,omitempty"`
	PerTaskMS      int  `json:"per_task_ms,omitempty"`
	NeverAck       bool `json:"never_ack,omitempty"`
	AckAfterMS     int  `json:"ack_after_ms,omitempty"`  // acks suppressed until this long after connect
	StopReadAfter  int  `json:"stop_read_after,omitempty"` // >0: stops reading after that many messages ...
	ResumeReadMS   int  `json:"resume_read_ms,omitempty"`  // ... and resumes after this long (0 = never)
	AckPeriodMS    int  `json:"ack_period_ms,omitempty"`   // default 1000
	AckPauseFromMS int  `json:"ack_pause_from_ms,omitempty"` // no acks are sent in [from, to) after connect
	AckPauseToMS   int  `json:"ack_pause_to_ms,omitempty"`
	AsyncProcess   bool `json:"async_process,omitempty"` // tasks are queued at once and processed in the background (as Temporal's scheduler does)
}

// Fault: break stream Stream right after its N-th boundary event of kind Kind.
// Stream is a shard name ("R:2"); the break ends the current incarnation of the stream that
// shard initiated (Side "target": the initiator's context is cancelled, as when the
// connection from that cluster dies) or of the reverse stream the proxy opened to that
// shard (Side "source": the fake server ends it with Unavailable).
type Fault struct {
	Side        string `json:"side"`
	Stream      string `json:"stream"`
	Kind        string `json:"kind"`
	N           int    `json:"n"`
	ReconnectMS int    `json:"reconnect_ms"`
}

type Scenario struct {
	Name      string               `json:"name"`
	Class     string               `json:"class"` // fair | hostile | fault
	Seed      int64                `json:"seed"`
	NL        int                  `json:"nl"`
	NR        int                  `json:"nr"`
	PeriodMS  int                  `json:"period_ms"`
	NWf       int                  `json:"nwf"`
	Scripts   map[string][]Batch   `json:"scripts"`
	Final     map[string]int64     `json:"final"`
	Targets   map[string]TargetBeh `json:"targets"`
	Faults    []Fault              `json:"faults,omitempty"`
	ProbePM   int                  `json:"probe_permille,omitempty"`
	ProbeMaxMS int                 `json:"probe_max_ms,omitempty"`
	// ParkAt: log message (substring) -> ms: every goroutine that logs it is held there that long. Used to keep
	// a dying target sender between closing its delivery channel and deregistering it ("UnregisterShard" is
	// logged in between), so that hand-offs land in that window.
	ParkAt map[string]int `json:"park_at,omitempty"`
	HorizonS  int                  `json:"horizon_s"`
	// WatermarkOnConnect: a reconnecting source first repeats its acknowledged level as a
	// watermark-only batch (Temporal's sender reports its watermark when it has nothing to send)
	WatermarkOnConnect bool `json:"watermark_on_connect,omitempty"`
	Window    int                  `json:"window"`
}

func shardName(cluster, shard int) string { return fmt.Sprintf("%c:%d", "?LR"[cluster], shard) }

// ---------------------------------------------------------------------------------------
// event log + online oracles

type Event struct {
	Seq    int      `json:"seq"`
	VTms   int64    `json:"vt_ms"`
	Kind   string   `json:"kind"`
	Stream string   `json:"stream"`
	IDs    []int64  `json:"ids,omitempty"`
	W      int64    `json:"w"`
	Marks  []string `json:"marks,omitempty"`
}

type taskState struct {
	src        string
	orig       int64
	fwdStream  string // target stream incarnation it was (last) forwarded on
	fwdPID     int64
	confirmed  bool
	deliveries int
	lastSeenInc int // incarnation of the source stream that (last) handed this task over
	lastSeenSeq int // event number of that hand-over
	lastSeenVT  int64 // virtual time of that hand-over
	owner       string
}

type Recorder struct {
	mu      sync.Mutex
	start   time.Time
	sc      *Scenario
	Events  []Event
	Viol    []rec.Violation
	violSig map[string]bool
	onEvent func(e Event) // fault trigger; called under mu - must not block

	tasks     map[string]*taskState            // marker -> state
	originals map[string]*replicationv1.ReplicationTask
	unconf    map[string]map[int64]*taskState // source -> orig id -> state (received, not confirmed)
	srcMaxHigh map[string]int64
	srcInc     map[string]int
	srcLastAck map[string]int64 // within current incarnation
	srcAckEver map[string]int64
	srcFirstID map[string]int64
	tgtPending map[string]map[int64]*taskState // target stream incarnation -> proxy id -> task
	tgtLastID  map[string]int64
	tgtLastHigh map[string]int64
	tgtSrcLast map[string]int64
	tgtAcked   map[string]bool
	tgtEnded   map[string]bool
	tgtEndSeq  map[string]int // target shard -> event number of its latest stream end
	srcViolLevel map[string]int64  // per source, within its current incarnation: highest ack already flagged ...
	srcViolCause map[string]string // ... and the cause it was attributed to
	srcOpenSeq     map[string]int   // source -> event number at which its current stream incarnation opened
	srcPrevMaxHigh map[string]int64 // source -> highest exclusive high watermark announced by its EARLIER incarnations
	tgtOpenSeq     map[string]int   // target stream incarnation -> event number of its opening
	tgtFaultAt     map[string]int64 // target shard -> virtual time at which the harness broke its stream (latest)
	kindCount  map[string]int64
	perStreamKind map[string]int
	maxOutstandingTargets int
	nonVacuousAcks int64
	acksChecked    int64
	finalAckAt     map[string]int64 // source -> vt ms when SRC_ACK == final first seen
	lastResumeAt   int64 // vt ms at which a stalled target last resumed reading
	lastConfirmAt  int64
	lastProgressAt int64 // vt ms of the last delivery of a task, confirmation, or increase of a source's ack
}

func NewRecorder(sc *Scenario) *Recorder {
	return &Recorder{start: time.Now(), sc: sc, violSig: map[string]bool{},
		tasks: map[string]*taskState{}, originals: map[string]*replicationv1.ReplicationTask{}, unconf: map[string]map[int64]*taskState{},
		srcMaxHigh: map[string]int64{}, srcInc: map[string]int{}, srcLastAck: map[string]int64{}, srcAckEver: map[string]int64{}, srcFirstID: map[string]int64{},
		tgtPending: map[string]map[int64]*taskState{}, tgtLastID: map[string]int64{}, tgtLastHigh: map[string]int64{}, tgtSrcLast: map[string]int64{},
		tgtAcked: map[string]bool{}, tgtEnded: map[string]bool{}, tgtEndSeq: map[string]int{}, srcViolLevel: map[string]int64{}, srcViolCause: map[string]string{}, kindCount: map[string]int64{}, perStreamKind: map[string]int{}, finalAckAt: map[string]int64{}}
}

func (r *Recorder) now() int64 { return time.Since(r.start).Milliseconds() }

func (r *Recorder) violate(prop, sig, format string, a ...any) {
	if r.violSig[prop+sig] {
		return
	}
	r.violSig[prop+sig] = true
	r.Viol = append(r.Viol, rec.Violation{Prop: prop, Sig: sig, What: fmt.Sprintf(format, a...), Witness: map[string]any{"at_event": len(r.Events), "vt_ms": r.now()}})
}

func (r *Recorder) add(e Event) {
	e.Seq = len(r.Events)
	e.VTms = r.now()
	r.Events = append(r.Events, e)
	r.kindCount[e.Kind]++
	base := e.Stream
	if i := strings.Index(base, "#"); i >= 0 {
		base = base[:i]
	}
	r.perStreamKind[base+"|"+e.Kind]++
	if r.onEvent != nil {
		r.onEvent(e)
	}
}

func baseOf(stream string) string {
	if i := strings.Index(stream, "#"); i >= 0 {
		return stream[:i]
	}
	return stream
}

func faults(sc *Scenario) bool { return len(sc.Faults) > 0 }

// SRC_SEND: the source handed a message to the proxy (recorded before Recv returns it).
func (r *Recorder) SrcSend(stream string, m *replicationv1.WorkflowReplicationMessages) {
	r.mu.Lock()
	defer r.mu.Unlock()
	src := baseOf(stream)
	var ids []int64
	if r.unconf[src] == nil {
		r.unconf[src] = map[int64]*taskState{}
	}
	for _, t := range m.ReplicationTasks {
		ids = append(ids, t.SourceTaskId)
		mark := t.RawTaskInfo.RunId
		ts := r.tasks[mark]
		if ts == nil {
			ts = &taskState{src: src, orig: t.SourceTaskId}
			nT, tc := r.sc.NR, 'R' // tasks of an L source are owned by R shards and vice versa
			if src[0] == 'R' {
				nT, tc = r.sc.NL, 'L'
			}
			ts.owner = fmt.Sprintf("%c:%d", tc, int(farm.Fingerprint32([]byte(t.RawTaskInfo.NamespaceId+"_"+t.RawTaskInfo.WorkflowId))%uint32(nT))+1)
			r.tasks[mark] = ts
			if _, ok := r.srcFirstID[src]; !ok {
				r.srcFirstID[src] = t.SourceTaskId
			}
		}
		ts.lastSeenInc, ts.lastSeenSeq, ts.lastSeenVT = r.srcInc[src], len(r.Events), r.now()
		if !ts.confirmed {
			r.unconf[src][t.SourceTaskId] = ts
		}
	}
	if m.ExclusiveHighWatermark > r.srcMaxHigh[src] {
		r.srcMaxHigh[src] = m.ExclusiveHighWatermark
	}
	r.add(Event{Kind: "SRC_SEND", Stream: stream, IDs: ids, W: m.ExclusiveHighWatermark})
}

func (r *Recorder) RememberOriginal(mark string, t *replicationv1.ReplicationTask) {
	r.mu.Lock()
	defer r.mu.Unlock()
	if _, ok := r.originals[mark]; !ok {
		r.originals[mark] = proto.Clone(t).(*replicationv1.ReplicationTask)
	}
}

// TGT_RECV: the proxy sent a message on a target stream (recorded on entry to Send).
func (r *Recorder) TgtRecv(stream string, nTarget int, m *replicationv1.WorkflowReplicationMessages) {
	r.mu.Lock()
	defer r.mu.Unlock()
	tgt := baseOf(stream)
	var ids []int64
	var marks []string
	if r.tgtPending[stream] == nil {
		r.tgtPending[stream] = map[int64]*taskState{}
	}
	for _, t := range m.ReplicationTasks {
		ids = append(ids, t.SourceTaskId)
		if t.RawTaskInfo == nil {
			r.violate("C02", "task-without-rawinfo", "task %d on %s lost its RawTaskInfo", t.SourceTaskId, stream)
			continue
		}
		mark := t.RawTaskInfo.RunId
		marks = append(marks, mark)
		ts := r.tasks[mark]
		if ts == nil {
			r.violate("C02", "unknown-task", "target %s received a task the sources never sent: %q", stream, mark)
			continue
		}
		ts.deliveries++
		if ts.deliveries > 1 && !faults(r.sc) {
			r.violate("C02", "duplicate-delivery", "task %s delivered %d times (last on %s)", mark, ts.deliveries, stream)
		}
		// owner: farm32(namespaceID_workflowID) mod nTarget + 1, computed here, not by the repo's helper
		want := int(farm.Fingerprint32([]byte(t.RawTaskInfo.NamespaceId+"_"+t.RawTaskInfo.WorkflowId))%uint32(nTarget)) + 1
		if fmt.Sprintf("%s:%d", tgt[:1], want) != tgt {
			r.violate("C02", "wrong-owner", "task %s (ns %s wf %s) delivered to %s, owner under %d shards is shard %d", mark, t.RawTaskInfo.NamespaceId, t.RawTaskInfo.WorkflowId, tgt, nTarget, want)
		}
		if t.SourceTaskId <= r.tgtLastID[stream] {
			r.violate("C02", "task-id-not-increasing", "task id %d after %d on %s (a Temporal receiver drops it)", t.SourceTaskId, r.tgtLastID[stream], stream)
		}
		r.tgtLastID[stream] = t.SourceTaskId
		if t.RawTaskInfo.TaskId != t.SourceTaskId {
			r.violate("C02", "rawinfo-id-mismatch", "RawTaskInfo.TaskId %d != SourceTaskId %d on %s", t.RawTaskInfo.TaskId, t.SourceTaskId, stream)
		}
		k := stream + "|" + ts.src
		if ts.orig <= r.tgtSrcLast[k] && !faults(r.sc) {
			r.violate("C02", "source-order", "tasks of %s out of source order on %s: %d after %d", ts.src, stream, ts.orig, r.tgtSrcLast[k])
		}
		if ts.orig > r.tgtSrcLast[k] {
			r.tgtSrcLast[k] = ts.orig
		}
		// payload: identical once the two id fields are restored
		if o := r.originals[mark]; o != nil {
			c := proto.Clone(t).(*replicationv1.ReplicationTask)
			c.SourceTaskId = o.SourceTaskId
			c.RawTaskInfo.TaskId = o.RawTaskInfo.TaskId
			if !proto.Equal(c, o) {
				r.violate("C02", "payload-changed", "payload of %s changed in transit on %s", mark, stream)
			}
		}
		ts.fwdStream, ts.fwdPID = stream, t.SourceTaskId
		r.tgtPending[stream][t.SourceTaskId] = ts
	}
	if len(m.ReplicationTasks) > 0 {
		if m.ExclusiveHighWatermark <= r.tgtLastID[stream] {
			r.violate("C02", "high-not-above-last-id", "exclusive high %d <= last task id %d on %s (a Temporal receiver panics)", m.ExclusiveHighWatermark, r.tgtLastID[stream], stream)
		}
		if m.ExclusiveHighWatermark <= r.tgtLastHigh[stream] {
			r.violate("C02", "task-message-high-not-increasing", "task-bearing message with high %d <= earlier high %d on %s (a Temporal receiver drops the whole message)", m.ExclusiveHighWatermark, r.tgtLastHigh[stream], stream)
		}
	}
	if m.ExclusiveHighWatermark > r.tgtLastHigh[stream] {
		r.tgtLastHigh[stream] = m.ExclusiveHighWatermark
	}
	if len(ids) > 0 {
		r.lastProgressAt = r.now()
	}
	r.add(Event{Kind: "TGT_RECV", Stream: stream, IDs: ids, W: m.ExclusiveHighWatermark, Marks: marks})
}

// TGT_ACK: the proxy consumed a SyncReplicationState from a target (before Recv returns).
func (r *Recorder) TgtAck(stream string, w int64) {
	r.mu.Lock()
	defer r.mu.Unlock()
	r.tgtAcked[stream] = true
	for p, ts := range r.tgtPending[stream] {
		if p < w {
			ts.confirmed = true
			delete(r.unconf[ts.src], ts.orig)
			delete(r.tgtPending[stream], p)
			r.lastConfirmAt = r.now()
			r.lastProgressAt = r.lastConfirmAt
		}
	}
	r.add(Event{Kind: "TGT_ACK", Stream: stream, W: w})
}

func (r *Recorder) SrcOpen(stream string) {
	r.mu.Lock()
	defer r.mu.Unlock()
	src := baseOf(stream)
	r.srcInc[src]++
	if r.srcOpenSeq == nil {
		r.srcOpenSeq, r.srcPrevMaxHigh = map[string]int{}, map[string]int64{}
	}
	r.srcOpenSeq[src] = len(r.Events)
	if r.srcInc[src] > 1 {
		r.srcPrevMaxHigh[src] = r.srcMaxHigh[src]
	}
	r.srcLastAck[src] = 0
	delete(r.srcViolLevel, src)
	delete(r.srcViolCause, src)
	r.add(Event{Kind: "SRC_OPEN", Stream: stream})
}

func (r *Recorder) Mark(kind, stream string) {
	r.mu.Lock()
	defer r.mu.Unlock()
	if kind == "TGT_END" {
		r.tgtEnded[stream] = true
		r.tgtEndSeq[baseOf(stream)] = len(r.Events)
	}
	if kind == "TGT_OPEN" {
		if r.tgtOpenSeq == nil {
			r.tgtOpenSeq = map[string]int{}
		}
		r.tgtOpenSeq[stream] = len(r.Events)
	}
	r.add(Event{Kind: kind, Stream: stream})
}

// SRC_ACK: the proxy sent an acknowledgement to a source (recorded on entry to Send).
func (r *Recorder) SrcAck(stream string, a int64) {
	r.mu.Lock()
	defer r.mu.Unlock()
	src := baseOf(stream)
	r.acksChecked++
	if first, ok := r.srcFirstID[src]; ok && a > first {
		r.nonVacuousAcks++
	}
	// C03 safety
	if a < r.srcLastAck[src] {
		r.violate("C03", "ack-decreased", "ack to %s decreased: %d after %d", stream, a, r.srcLastAck[src])
	}
	r.srcLastAck[src] = a
	if a > r.srcAckEver[src] {
		r.srcAckEver[src] = a
		r.lastProgressAt = r.now()
	}
	if a > r.srcMaxHigh[src] {
		r.violate("C03", "ack-above-high", "ack %d to %s exceeds the last exclusive high watermark %d received from it", a, stream, r.srcMaxHigh[src])
	}
	if fin, ok := r.sc.Final[src]; ok && a == fin {
		if _, seen := r.finalAckAt[src]; !seen {
			r.finalAckAt[src] = r.now()
		}
	}
	// C01 / C04
	var bad []*taskState
	targetsOut := map[string]bool{}
	for id, ts := range r.unconf[src] {
		if ts.fwdStream != "" {
			targetsOut[baseOf(ts.fwdStream)] = true
		}
		if id < a {
			bad = append(bad, ts)
		}
	}
	if len(targetsOut) > r.maxOutstandingTargets {
		r.maxOutstandingTargets = len(targetsOut)
	}
	if len(bad) > 0 {
		sort.Slice(bad, func(i, j int) bool { return bad[i].orig < bad[j].orig })
		t := bad[0]
		cause := ""
		endSeq, ended := r.tgtEndSeq[t.owner]
		switch {
		case t.fwdStream != "" && r.tgtEnded[t.fwdStream]:
			// forwarded on a target-stream incarnation that ended before confirming it
			cause = "target-stream-broke-holding-task"
		case t.fwdStream == "" && ended && endSeq > t.lastSeenSeq && r.tgtFaultAt[t.owner] > 0 && t.lastSeenVT >= r.tgtFaultAt[t.owner]+50:
			// handed over by its source AFTER the owning target's stream had been broken (50 virtual ms earlier or
			// more: the dying sender has closed its delivery channel by then) and before that sender finished
			// unwinding: such a hand-off is refused and retried, the task must reach the next incarnation - it
			// cannot have died in the old incarnation's queue (that is F-C04a)
			cause = "handed-over-after-target-broke-never-delivered"
		case t.fwdStream == "" && ended && endSeq > t.lastSeenSeq:
			// handed over, never seen on a target stream, and the owning target's stream ended
			// in between: the task died in that incarnation's queue
			cause = "target-stream-broke-holding-task"
		case t.lastSeenInc < r.srcInc[src]:
			// received in an earlier incarnation of this source's stream and not re-sent yet
			cause = "received-before-source-reconnect"
		case t.fwdStream == "":
			cause = "not-yet-forwarded"
		case r.srcInc[src] > 1 && r.srcPrevMaxHigh[src] > t.orig && a <= r.srcPrevMaxHigh[src] && r.tgtOpenSeq[t.fwdStream] < r.srcOpenSeq[src]:
			// The source reconnected; the target stream now holding the re-sent task was already open before
			// that and had been handed a watermark above the task by the source's PREVIOUS incarnation
			// (broadcast / replay to late targets). Its acknowledgement of that old entry is credited to
			// the new incarnation although the re-sent task behind it is not confirmed yet.
			cause = "stale-watermark-credit-after-source-reconnect"
		default:
			cause = "unconfirmed-on-live-target"
		}
		// A repeat of an acknowledgement level that was already flagged in this incarnation
		// (keep-alive re-sends of the same ack) claims nothing new: same root cause.
		if lvl, ok := r.srcViolLevel[src]; ok && a <= lvl {
			cause = r.srcViolCause[src]
		} else {
			r.srcViolLevel[src], r.srcViolCause[src] = a, cause
		}
		prop := "C01"
		if faults(r.sc) {
			prop = "C04"
		}
		ids := make([]int64, 0, len(bad))
		for _, b := range bad {
			ids = append(ids, b.orig)
		}
		r.violate(prop, "ack-ahead:"+cause, "proxy acknowledged %d to %s while task(s) %v of that source are not confirmed by any target stream; first: id %d forwarded on %q as proxy id %d (cause: %s)",
			a, stream, ids, t.orig, t.fwdStream, t.fwdPID, cause)
	}
	r.add(Event{Kind: "SRC_ACK", Stream: stream, W: a})
}

// Signature of the interleaving: hash over (kind, stream) pairs in order.
func (r *Recorder) InterleavingSig() string {
	r.mu.Lock()
	defer r.mu.Unlock()
	var sb strings.Builder
	for _, e := range r.Events {
		sb.WriteString(e.Kind)
		sb.WriteByte('@')
		sb.WriteString(e.Stream)
		sb.WriteByte(';')
	}
	return rec.Hash(sb.String())
}

// ---------------------------------------------------------------------------------------
// fake cluster

type cluster struct {
	adminservice.AdminServiceClient // nil: any other call panics - the routing path must not make one
	w     *World
	id    int
	n     int
	peerN int

	mu      sync.Mutex
	lastAck map[int]int64
	srcInc  map[int]int
	srcLive map[int]*fakes.ClientSide
	scriptDone map[int]bool
}

type World struct {
	Sc     *Scenario
	Rec    *Recorder
	Probe  *fakes.Probe
	L, R   *cluster
	rng    *rand.Rand
	wfMu   sync.Mutex
	wf     map[string][2]string
	tgtMu  sync.Mutex
	tgtCancel map[string]context.CancelFunc // current incarnation cancel per target shard
	trackerViol []string
}

func (w *World) cluster(id int) *cluster {
	if id == 1 {
		return w.L
	}
	return w.R
}

func (w *World) wfFor(src string, id int64) (ns, wf string) {
	w.wfMu.Lock()
	defer w.wfMu.Unlock()
	k := fmt.Sprintf("%s/%d", src, id)
	if v, ok := w.wf[k]; ok {
		return v[0], v[1]
	}
	v := [2]string{fmt.Sprintf("ns-%d", w.rng.Intn(3)), fmt.Sprintf("wf-%d", w.rng.Intn(w.Sc.NWf))}
	w.wf[k] = v
	return v[0], v[1]
}

func (c *cluster) name(i int) string { return shardName(c.id, i) }

func (c *cluster) buildTask(src string, id int64) *replicationv1.ReplicationTask {
	ns, wf := c.w.wfFor(src, id)
	mark := fmt.Sprintf("%s %d", src, id)
	t := &replicationv1.ReplicationTask{
		TaskType:     enumsspb.ReplicationTaskType(1 + id%5),
		SourceTaskId: id,
		Attributes: &replicationv1.ReplicationTask_HistoryTaskAttributes{HistoryTaskAttributes: &replicationv1.HistoryTaskAttributes{
			NamespaceId: ns, WorkflowId: wf, RunId: "run-" + mark,
		}},
		VisibilityTime: timestamppb.New(time.Unix(1700000000+id, 0)),
		Priority:       enumsspb.TASK_PRIORITY_HIGH,
		RawTaskInfo: &persistencespb.ReplicationTaskInfo{NamespaceId: ns, WorkflowId: wf, RunId: mark, TaskId: id,
			TaskType: enumsspb.TASK_TYPE_REPLICATION_HISTORY, Version: 1000 + id, FirstEventId: id * 3, NextEventId: id*3 + 2},
	}
	c.w.Rec.RememberOriginal(mark, t)
	return t
}

// The proxy's receiver opens the reverse stream here: this cluster is the SOURCE.
func (c *cluster) StreamWorkflowReplicationMessages(ctx context.Context, _ ...grpc.CallOption) (adminservice.AdminService_StreamWorkflowReplicationMessagesClient, error) {
	md, _ := metadata.FromOutgoingContext(ctx)
	var shard int
	if v := md.Get(history.MetadataKeyServerShardID); len(v) > 0 {
		fmt.Sscan(v[0], &shard)
	}
	if shard < 1 || shard > c.n {
		return nil, status.Errorf(codes.InvalidArgument, "no such shard %d", shard)
	}
	c.mu.Lock()
	c.srcInc[shard]++
	inc := c.srcInc[shard]
	resume := c.lastAck[shard]
	c.mu.Unlock()
	stream := fmt.Sprintf("%s#%d", c.name(shard), inc)
	cs := fakes.NewClientSide(ctx, c.w.Sc.Window)
	cs.EOFOnHalf = true // a Temporal sender ends the stream when the receiver half-closes
	cs.OnRecv = func(m *fakes.Resp) { c.w.Rec.SrcSend(stream, m.GetMessages()) }
	cs.OnSend = func(m *fakes.Req) {
		a := m.GetSyncReplicationState().GetInclusiveLowWatermark()
		c.mu.Lock()
		if a > c.lastAck[shard] {
			c.lastAck[shard] = a
		}
		c.mu.Unlock()
		c.w.Rec.SrcAck(stream, a)
	}
	c.mu.Lock()
	c.srcLive[shard] = cs
	c.mu.Unlock()
	c.w.Rec.SrcOpen(stream)
	go c.runSource(shard, stream, cs, resume)
	go func() { // drain what the proxy sends (acks are recorded in OnSend)
		for {
			select {
			case <-cs.In():
			case <-cs.Done():
				return
			case <-ctx.Done():
				return
			}
		}
	}()
	return cs, nil
}

func (c *cluster) runSource(shard int, stream string, cs *fakes.ClientSide, resume int64) {
	src := c.name(shard)
	defer c.w.Rec.Mark("SRC_END", stream)
	send := func(b Batch) bool {
		msgs := &replicationv1.WorkflowReplicationMessages{ExclusiveHighWatermark: b.High}
		for _, id := range b.IDs {
			msgs.ReplicationTasks = append(msgs.ReplicationTasks, c.buildTask(src, id))
		}
		return cs.Offer(&fakes.Resp{Attributes: &adminservice.StreamWorkflowReplicationMessagesResponse_Messages{Messages: msgs}})
	}
	wait := func(d time.Duration) bool {
		select {
		case <-time.After(d):
			return true
		case <-cs.Context().Done():
			return false
		case <-cs.Done():
			return false
		}
	}
	if c.w.Sc.WatermarkOnConnect && resume > 0 {
		if !send(Batch{High: resume}) {
			return
		}
	}
	for _, b := range c.w.Sc.Scripts[src] {
		if len(b.IDs) > 0 {
			var keep []int64
			for _, id := range b.IDs {
				if id >= resume {
					keep = append(keep, id)
				}
			}
			if len(keep) == 0 {
				continue
			}
			b.IDs = keep
		} else if b.High <= resume {
			continue
		}
		if !wait(time.Duration(b.WaitMS) * time.Millisecond) {
			return
		}
		if !send(b) {
			return
		}
	}
	c.mu.Lock()
	c.scriptDone[shard] = true
	c.mu.Unlock()
	for { // Temporal's sender repeats its high watermark while idle
		if !wait(time.Duration(c.w.Sc.PeriodMS) * time.Millisecond) {
			return
		}
		if !send(Batch{High: c.w.Sc.Final[src]}) {
			return
		}
	}
}

// breakSource ends the current reverse stream of a shard with Unavailable.
func (c *cluster) breakSource(shard int) {
	c.mu.Lock()
	cs := c.srcLive[shard]
	c.mu.Unlock()
	if cs != nil {
		cs.Finish(status.Error(codes.Unavailable, "injected: connection to source lost"))
	}
}

// runTarget: this cluster's shard initiates its stream through the proxy handler and
// behaves as a Temporal stream receiver (single-stack tracker model). It reconnects when
// its stream ends, until ctx is done.
func (c *cluster) runTarget(ctx context.Context, shard int, h adminservice.AdminServiceServer, beh TargetBeh) {
	// distinct virtual instants per shard: registration timestamps are identities
	time.Sleep(time.Duration(beh.ConnectDelayMS)*time.Millisecond + time.Duration(c.id*64+shard)*time.Microsecond)
	for inc := 1; ctx.Err() == nil; inc++ {
		reconnect := c.runTargetInc(ctx, shard, h, beh, inc)
		select {
		case <-ctx.Done():
			return
		case <-time.After(reconnect + time.Microsecond):
		}
	}
}

func (c *cluster) runTargetInc(ctx context.Context, shard int, h adminservice.AdminServiceServer, beh TargetBeh, inc int) (reconnect time.Duration) {
	w := c.w
	tgt := fmt.Sprintf("%s#%d", c.name(shard), inc)
	peer := 3 - c.id
	md := metadata.Pairs(history.MetadataKeyClientClusterID, fmt.Sprint(c.id), history.MetadataKeyClientShardID, fmt.Sprint(shard),
		history.MetadataKeyServerClusterID, fmt.Sprint(peer), history.MetadataKeyServerShardID, fmt.Sprint(shard))
	sctx, cancel := context.WithCancel(metadata.NewIncomingContext(ctx, md))
	defer cancel()
	w.tgtMu.Lock()
	w.tgtCancel[c.name(shard)] = cancel
	w.tgtMu.Unlock()
	ss := fakes.NewServerSide(sctx, w.Sc.Window)
	ss.OnSend = func(m *fakes.Resp) { w.Rec.TgtRecv(tgt, c.n, m.GetMessages()) }
	ss.OnRecv = func(m *fakes.Req) { w.Rec.TgtAck(tgt, m.GetSyncReplicationState().GetInclusiveLowWatermark()) }
	w.Rec.Mark("TGT_OPEN", tgt)
	handlerDone := make(chan struct{})
	go func() {
		_ = h.StreamWorkflowReplicationMessages(ss)
		w.Rec.Mark("TGT_END", tgt)
		close(handlerDone)
		cancel()
	}()
	// Temporal ExecutableTaskTracker model (single stack)
	var mu sync.Mutex
	var queue []int64
	high := int64(-1)
	lastQueued := int64(-1)
	gotAny := false
	opened := time.Now()
	period := time.Duration(beh.AckPeriodMS) * time.Millisecond
	if period <= 0 {
		period = time.Second
	}
	go func() { // ack ticker
		tk := time.NewTicker(period)
		defer tk.Stop()
		for {
			select {
			case <-tk.C:
				if beh.NeverAck || time.Since(opened) < time.Duration(beh.AckAfterMS)*time.Millisecond {
					continue
				}
				if el := time.Since(opened).Milliseconds(); beh.AckPauseToMS > 0 && el >= int64(beh.AckPauseFromMS) && el < int64(beh.AckPauseToMS) {
					continue
				}
				mu.Lock()
				wm := high
				if len(queue) > 0 {
					wm = queue[0]
				}
				ok := gotAny
				mu.Unlock()
				if !ok {
					continue // LowWatermark() is nil before the first message
				}
				if !ss.Offer(&fakes.Req{Attributes: &adminservice.StreamWorkflowReplicationMessagesRequest_SyncReplicationState{
					SyncReplicationState: &replicationv1.SyncReplicationState{InclusiveLowWatermark: wm, InclusiveLowWatermarkTime: timestamppb.New(time.Now())}}}) {
					return
				}
			case <-sctx.Done():
				return
			}
		}
	}()
	procKick := make(chan int, 100000)
	if beh.AsyncProcess {
		go func() { // background processor: one task per PerTaskMS, in order
			for {
				select {
				case n := <-procKick:
					for i := 0; i < n; i++ {
						if beh.PerTaskMS > 0 {
							select {
							case <-time.After(time.Duration(beh.PerTaskMS) * time.Millisecond):
							case <-sctx.Done():
								return
							}
						}
						mu.Lock()
						if len(queue) > 0 {
							queue = queue[1:]
						}
						mu.Unlock()
					}
				case <-sctx.Done():
					return
				}
			}
		}()
	}
	read := 0
	for {
		if beh.StopReadAfter > 0 && read == beh.StopReadAfter {
			read++
			if beh.ResumeReadMS == 0 {
				<-sctx.Done()
				<-handlerDone
				return reconnectDelay(w.Sc, c.name(shard))
			}
			select {
			case <-time.After(time.Duration(beh.ResumeReadMS) * time.Millisecond):
				w.Rec.NoteResume()
			case <-sctx.Done():
				<-handlerDone
				return reconnectDelay(w.Sc, c.name(shard))
			}
		}
		select {
		case m := <-ss.Out():
			read++
			msgs := m.GetMessages()
			mu.Lock()
			gotAny = true
			if high >= 0 && msgs.ExclusiveHighWatermark <= high {
				if len(msgs.ReplicationTasks) > 0 {
					w.trackerNote(fmt.Sprintf("%s: tracker dropped a task-bearing message (high %d <= %d)", tgt, msgs.ExclusiveHighWatermark, high))
				}
				mu.Unlock()
				continue
			}
			for _, t := range msgs.ReplicationTasks {
				if t.SourceTaskId <= lastQueued {
					w.trackerNote(fmt.Sprintf("%s: tracker dropped task %d (<= %d)", tgt, t.SourceTaskId, lastQueued))
					continue
				}
				queue = append(queue, t.SourceTaskId)
				lastQueued = t.SourceTaskId
			}
			if len(msgs.ReplicationTasks) > 0 && msgs.ExclusiveHighWatermark <= lastQueued {
				w.trackerNote(fmt.Sprintf("%s: tracker would panic: high %d <= last task id %d", tgt, msgs.ExclusiveHighWatermark, lastQueued))
			}
			high = msgs.ExclusiveHighWatermark
			n := len(msgs.ReplicationTasks)
			mu.Unlock()
			if beh.AsyncProcess {
				select {
				case procKick <- n:
				case <-sctx.Done():
				}
				continue
			}
			for i := 0; i < n; i++ { // tasks complete in order after a scripted delay
				if beh.PerTaskMS > 0 {
					select {
					case <-time.After(time.Duration(beh.PerTaskMS) * time.Millisecond):
					case <-sctx.Done():
						<-handlerDone
						return reconnectDelay(w.Sc, c.name(shard))
					}
				}
				mu.Lock()
				if len(queue) > 0 {
					queue = queue[1:]
				}
				mu.Unlock()
			}
		case <-sctx.Done():
			<-handlerDone
			return reconnectDelay(w.Sc, c.name(shard))
		}
	}
}

func reconnectDelay(sc *Scenario, shard string) time.Duration {
	for _, f := range sc.Faults {
		if f.Stream == shard {
			return time.Duration(f.ReconnectMS) * time.Millisecond
		}
	}
	return 500 * time.Millisecond
}

func (w *World) trackerNote(s string) {
	w.tgtMu.Lock()
	defer w.tgtMu.Unlock()
	if len(w.trackerViol) < 10 {
		w.trackerViol = append(w.trackerViol, s)
	}
}

func (w *World) breakTarget(shard string) {
	w.tgtMu.Lock()
	cancel := w.tgtCancel[shard]
	w.tgtMu.Unlock()
	if cancel != nil {
		cancel()
	}
}

func farmOwner(ns, wf string, n int) int {
	return int(farm.Fingerprint32([]byte(ns+"_"+wf))%uint32(n)) + 1
}

// NoteResume: a target that had stopped reading reads again (the bounded-progress clock of the fair
// class starts no earlier: what sat unread in front of a stalled target could not be acknowledged)
func (r *Recorder) NoteResume() {
	r.mu.Lock()
	r.lastResumeAt = r.now()
	r.mu.Unlock()
}

// NowMS: the recorder's clock (ms since it was created).
func (r *Recorder) NowMS() int64 {
	r.mu.Lock()
	defer r.mu.Unlock()
	return r.now()
}

// SentAfter lists the marks ("<source> <id>") of tasks whose FIRST hand-over by their source happened at or
// after t, and the set of marks that reached some target stream.
func (r *Recorder) SentAfter(t int64) (sent []string, delivered map[string]bool) {
	r.mu.Lock()
	defer r.mu.Unlock()
	first := map[string]int64{}
	delivered = map[string]bool{}
	for _, e := range r.Events {
		switch e.Kind {
		case "SRC_SEND":
			for _, id := range e.IDs {
				m := fmt.Sprintf("%s %d", baseOf(e.Stream), id)
				if _, ok := first[m]; !ok {
					first[m] = e.VTms
				}
			}
		case "TGT_RECV":
			for _, m := range e.Marks {
				delivered[m] = true
			}
		}
	}
	for m, at := range first {
		if at >= t {
			sent = append(sent, m)
		}
	}
	sort.Strings(sent)
	return
}

// AllFinalAcked: every source with a script has received an acknowledgement equal to its final watermark.
func (r *Recorder) AllFinalAcked() bool {
	r.mu.Lock()
	defer r.mu.Unlock()
	for s, sc := range r.sc.Scripts {
		if len(sc) == 0 {
			continue
		}
		if _, ok := r.finalAckAt[s]; !ok {
			return false
		}
	}
	return true
}

// Summary returns the violations recorded so far, event counts, and whether every source was fully acknowledged;
// undelivered tasks at that point are reported under C02.
func (r *Recorder) Summary() ([]rec.Violation, map[string]int64, bool) {
	done := r.AllFinalAcked()
	r.mu.Lock()
	defer r.mu.Unlock()
	counts := map[string]int64{"events": int64(len(r.Events)), "src_acks_checked": r.acksChecked, "src_acks_nonvacuous": r.nonVacuousAcks}
	for k, v := range r.kindCount {
		counts["ev_"+k] = v
	}
	var delivered int64
	for _, ts := range r.tasks {
		if ts.deliveries > 0 {
			delivered++
		}
	}
	counts["tasks"], counts["tasks_delivered"] = int64(len(r.tasks)), delivered
	viol := append([]rec.Violation{}, r.Viol...)
	if done && delivered != int64(len(r.tasks)) {
		viol = append(viol, rec.Violation{Prop: "C02", Sig: "task-never-delivered", What: fmt.Sprintf("%d of %d tasks were never delivered although every source was acknowledged up to its final watermark", int64(len(r.tasks))-delivered, len(r.tasks))})
	}
	return viol, counts, done
}
