package routesim

import (
	"fmt"
	"math/rand"
)

var quickPairs = [][2]int{{1, 1}, {1, 2}, {2, 1}, {1, 4}, {4, 1}, {2, 2}, {3, 3}, {2, 3}, {3, 2}, {3, 5}, {4, 6}, {6, 4}}

func genScript(rng *rand.Rand, nTasks int, slowGaps bool) ([]Batch, int64) {
	var out []Batch
	id := int64(100 + rng.Intn(50))
	made := 0
	for made < nTasks {
		wait := rng.Intn(4) * 300
		if slowGaps && rng.Intn(4) == 0 {
			wait = 1100 + rng.Intn(2500) // idle gaps longer than the 1 s keep-alive of both directions
		}
		switch rng.Intn(5) {
		case 0: // watermark only, possibly skipping ids
			id += int64(rng.Intn(3))
			out = append(out, Batch{High: id, WaitMS: wait})
		case 1, 2: // multi-task batch (its tasks may hash to several targets)
			k := 2 + rng.Intn(5)
			var ids []int64
			for i := 0; i < k; i++ {
				ids = append(ids, id)
				id += 1 + int64(rng.Intn(2))
			}
			made += k
			high := ids[len(ids)-1] + 1
			if rng.Intn(4) == 0 {
				high += int64(rng.Intn(3)) // Temporal may report a high watermark beyond the last task
			}
			out = append(out, Batch{IDs: ids, High: high, WaitMS: wait})
			id = high
		default: // single task: Temporal's normal shape
			out = append(out, Batch{IDs: []int64{id}, High: id + 1, WaitMS: wait})
			id++
			made++
		}
	}
	if rng.Intn(3) == 0 {
		id += int64(rng.Intn(4))
		out = append(out, Batch{High: id, WaitMS: rng.Intn(3) * 400})
	}
	return out, id
}

// GenScenario: class fair | hostile. idx selects the shard-count pair deterministically.
func GenScenario(seed int64, idx int, class string, thorough bool) *Scenario {
	rng := rand.New(rand.NewSource(seed))
	var nl, nr int
	if !thorough {
		p := quickPairs[idx%len(quickPairs)]
		nl, nr = p[0], p[1]
	} else {
		switch {
		case idx%10 == 9: // sampled larger counts
			nl, nr = 1+rng.Intn(32), 1+rng.Intn(32)
		default:
			k := idx % 36
			nl, nr = 1+k/6, 1+k%6
		}
	}
	sc := &Scenario{Class: class, Seed: seed, NL: nl, NR: nr, PeriodMS: []int{1000, 5000, 30000}[rng.Intn(3)], NWf: 1 + rng.Intn(12),
		Scripts: map[string][]Batch{}, Final: map[string]int64{}, Targets: map[string]TargetBeh{}, Window: 1 + rng.Intn(6)}
	if rng.Intn(3) == 0 {
		sc.PeriodMS = 1000
	}
	slow := rng.Intn(2) == 0
	scriptMS := 0
	for c := 1; c <= 2; c++ {
		n := nl
		if c == 2 {
			n = nr
		}
		for i := 1; i <= n; i++ {
			nt := rng.Intn(14)
			if rng.Intn(12) == 0 {
				nt = 110 + rng.Intn(150) // enough to fill a 100-slot queue behind a slow target
			}
			if n > 8 && rng.Intn(2) == 0 {
				nt = 0
			}
			s, fin := genScript(rng, nt, slow)
			name := shardName(c, i)
			sc.Scripts[name], sc.Final[name] = s, fin
			t := 0
			for _, b := range s {
				t += b.WaitMS
			}
			if t > scriptMS {
				scriptMS = t
			}
			beh := TargetBeh{PerTaskMS: rng.Intn(3) * 400}
			if rng.Intn(3) == 0 {
				beh.ConnectDelayMS = rng.Intn(6000) // connects after tasks for it may have arrived
			}
			if rng.Intn(6) == 0 {
				beh.AckAfterMS = 2000 + rng.Intn(8000) // acks late
			}
			if rng.Intn(8) == 0 {
				beh.StopReadAfter = 1 + rng.Intn(4)
				beh.ResumeReadMS = 3000 + rng.Intn(15000)
			}
			if rng.Intn(8) == 0 {
				beh.AckPeriodMS = 300 + rng.Intn(2500)
			}
			if class == "hostile" {
				switch rng.Intn(5) {
				case 0:
					beh.NeverAck = true
				case 1:
					beh.StopReadAfter = 1 + rng.Intn(3)
					beh.ResumeReadMS = 0 // never resumes: its queue and window fill up
				case 2:
					beh.AckAfterMS = 20000 + rng.Intn(40000)
				}
			}
			sc.Targets[name] = beh
		}
	}
	if rng.Intn(3) == 0 {
		sc.ProbePM = 20 + rng.Intn(200)
		sc.ProbeMaxMS = 1 + rng.Intn(1500)
	}
	maxStall := 0
	for _, b := range sc.Targets {
		if b.ResumeReadMS > maxStall {
			maxStall = b.ResumeReadMS
		}
		if b.AckAfterMS > maxStall && class != "hostile" {
			maxStall = b.AckAfterMS
		}
	}
	// generous: scripts + slow per-task processing of the longest script + stalls
	sc.HorizonS = 300 + 3*(scriptMS/1000+maxStall/1000+2*sc.PeriodMS/1000) + 3*270*800/1000
	sc.Name = fmt.Sprintf("%s/%dx%d/s%d", class, nl, nr, seed)
	return sc
}

// GenFaultBase: a small fair scenario in which targets are slow enough that unacknowledged
// tasks exist at most break positions.
func GenFaultBase(seed int64, idx int) *Scenario {
	rng := rand.New(rand.NewSource(seed))
	pairs := [][2]int{{1, 1}, {1, 2}, {2, 1}, {2, 2}, {2, 3}, {3, 2}, {1, 3}, {3, 1}, {3, 3}, {2, 4}}
	p := pairs[idx%len(pairs)]
	sc := &Scenario{Class: "fault", Seed: seed, NL: p[0], NR: p[1], PeriodMS: []int{1000, 2000, 5000}[rng.Intn(3)], NWf: 1 + rng.Intn(6),
		Scripts: map[string][]Batch{}, Final: map[string]int64{}, Targets: map[string]TargetBeh{}, Window: 1 + rng.Intn(4)}
	for c := 1; c <= 2; c++ {
		n := sc.NL
		if c == 2 {
			n = sc.NR
		}
		for i := 1; i <= n; i++ {
			nt := 3 + rng.Intn(8)
			if rng.Intn(4) == 0 {
				nt = 0
			}
			name := shardName(c, i)
			sc.Scripts[name], sc.Final[name] = genScript(rng, nt, rng.Intn(3) == 0)
			beh := TargetBeh{PerTaskMS: 200 + rng.Intn(4)*400}
			if rng.Intn(4) == 0 {
				beh.AckAfterMS = 1500 + rng.Intn(4000)
			}
			if rng.Intn(5) == 0 {
				beh.ConnectDelayMS = rng.Intn(3000)
			}
			sc.Targets[name] = beh
		}
	}
	sc.HorizonS = 600
	return sc
}

// GenBacklog: one target falls far behind after it has already acknowledged something: it keeps reading
// but stops acknowledging for a while, so that more than a thousand forwarded tasks are outstanding on
// its stream (the sender's proxy-id table wraps and grows with a non-zero head), then resumes.
func GenBacklog(seed int64, idx int) *Scenario {
	rng := rand.New(rand.NewSource(seed))
	pairs := [][2]int{{1, 1}, {2, 1}, {1, 2}, {2, 2}}
	p := pairs[idx%len(pairs)]
	sc := &Scenario{Class: "fair", Seed: seed, NL: p[0], NR: p[1], PeriodMS: 1000, NWf: 1 + rng.Intn(3),
		Scripts: map[string][]Batch{}, Final: map[string]int64{}, Targets: map[string]TargetBeh{}, Window: 8}
	for c := 1; c <= 2; c++ {
		n := sc.NL
		if c == 2 {
			n = sc.NR
		}
		for i := 1; i <= n; i++ {
			name := shardName(c, i)
			var s []Batch
			id := int64(1000)
			nt := 0
			if c == 1 { // L sources flood, R sources idle
				nt = 1300 + rng.Intn(900)
			}
			for k := 0; k < nt; k++ {
				w := 0
				if k == 30 {
					w = 3000 // let the first acknowledgements happen before the flood
				}
				s = append(s, Batch{IDs: []int64{id}, High: id + 1, WaitMS: w})
				id++
			}
			if nt == 0 {
				s = append(s, Batch{High: id, WaitMS: 100})
			}
			sc.Scripts[name], sc.Final[name] = s, id
			// reads at once, processes 15 ms per task in the background, stays silent from 2.5 s to 10-20 s: when it
			// resumes, its low watermark lies in the middle of more than a thousand outstanding entries
			sc.Targets[name] = TargetBeh{AsyncProcess: true, PerTaskMS: 15, AckPauseFromMS: 2500, AckPauseToMS: 10000 + rng.Intn(10000)}
		}
	}
	sc.HorizonS = 600
	return sc
}
