package routesim

import (
	"context"
	"fmt"
	"math/rand"
	"runtime"
	"sort"
	"strings"
	"time"

	"go.temporal.io/server/api/adminservice/v1"

	"github.com/temporalio/s2s-proxy/config"
	"github.com/temporalio/s2s-proxy/encryption"
	"github.com/temporalio/s2s-proxy/proxy"
	"verifharness/fakes"
	"verifharness/rec"
)

type Outcome struct {
	Viol     []rec.Violation
	Counts   map[string]int64
	Sig      string
	Events   []Event
	Probe    map[string]int
	Leaked   []string
	Inconclusive string
}

// Run executes one scenario. It must be called inside a synctest bubble.
func Run(sc *Scenario) *Outcome {
	w := &World{Sc: sc, rng: rand.New(rand.NewSource(sc.Seed + 7)), wf: map[string][2]string{}, tgtCancel: map[string]context.CancelFunc{}}
	w.Rec = NewRecorder(sc)
	w.Probe = fakes.NewProbe(sc.Seed)
	w.Probe.DelayPermille = sc.ProbePM
	w.Probe.MaxDelay = time.Duration(sc.ProbeMaxMS) * time.Millisecond
	if len(sc.ParkAt) > 0 {
		w.Probe.Script = map[string]map[int]time.Duration{}
		for msg, ms := range sc.ParkAt {
			occ := map[int]time.Duration{}
			for k := 1; k <= 200; k++ {
				occ[k] = time.Duration(ms) * time.Millisecond
			}
			w.Probe.Script[msg] = occ
		}
	}
	ctx, cancel := context.WithCancel(context.Background())
	scc := config.ShardCountConfig{Mode: config.ShardCountRouting, LocalShardCount: int32(sc.NL), RemoteShardCount: int32(sc.NR)}
	sm := proxy.NewShardManager(nil, scc, encryption.TLSConfig{}, w.Probe)
	_ = sm.Start(ctx) // installs the shard-change callbacks exactly as ClusterConnection.Start does
	w.L = &cluster{w: w, id: 1, n: sc.NL, peerN: sc.NR, lastAck: map[int]int64{}, srcInc: map[int]int{}, srcLive: map[int]*fakes.ClientSide{}, scriptDone: map[int]bool{}}
	w.R = &cluster{w: w, id: 2, n: sc.NR, peerN: sc.NL, lastAck: map[int]int64{}, srcInc: map[int]int{}, srcLive: map[int]*fakes.ClientSide{}, scriptDone: map[int]bool{}}
	obs := func(int32, int32) {}
	// parameters exactly as NewClusterConnection computes them for the two servers
	inbound := proxy.NewAdminServiceProxyServer("inboundAdminService", w.L, w.R, proxy.AdminServiceOverrides{}, []string{"inbound"}, obs, scc, proxy.LCMParameters{},
		proxy.RoutingParameters{OverrideShardCount: int32(sc.NR), RoutingLocalShardCount: int32(sc.NL), DirectionLabel: "inbound"}, w.Probe, sm, ctx)
	outbound := proxy.NewAdminServiceProxyServer("outboundAdminService", w.R, w.L, proxy.AdminServiceOverrides{}, []string{"outbound"}, obs, scc, proxy.LCMParameters{},
		proxy.RoutingParameters{OverrideShardCount: int32(sc.NL), RoutingLocalShardCount: int32(sc.NR), DirectionLabel: "outbound"}, w.Probe, sm, ctx)

	// fault triggers
	if len(sc.Faults) > 0 {
		fired := make([]bool, len(sc.Faults))
		w.Rec.onEvent = func(e Event) {
			for i, f := range sc.Faults {
				if fired[i] || e.Kind != f.Kind || baseOf(e.Stream) != f.Stream {
					continue
				}
				if w.Rec.perStreamKind[f.Stream+"|"+f.Kind] == f.N {
					fired[i] = true
					w.Rec.Events = append(w.Rec.Events, Event{Seq: len(w.Rec.Events), VTms: w.Rec.now(), Kind: "FAULT_" + strings.ToUpper(f.Side), Stream: f.Stream})
					var id, shard int
					fmt.Sscanf(strings.Replace(strings.Replace(f.Stream, "L:", "1 ", 1), "R:", "2 ", 1), "%d %d", &id, &shard)
					if f.Side == "target" {
						if w.Rec.tgtFaultAt == nil {
							w.Rec.tgtFaultAt = map[string]int64{}
						}
						w.Rec.tgtFaultAt[f.Stream] = w.Rec.now()
						w.breakTarget(f.Stream)
					} else {
						go w.cluster(id).breakSource(shard)
					}
				}
			}
		}
	}

	base := goroutineCensus()
	for i := 1; i <= sc.NR; i++ {
		go w.R.runTarget(ctx, i, inbound, sc.Targets[shardName(2, i)])
	}
	for i := 1; i <= sc.NL; i++ {
		go w.L.runTarget(ctx, i, outbound, sc.Targets[shardName(1, i)])
	}

	// run until every source finished its script and a quiescence window elapsed, capped by the horizon
	horizon := time.Duration(sc.HorizonS) * time.Second
	start := time.Now()
	need := time.Duration(2*sc.PeriodMS+12000) * time.Millisecond
	if sc.ProbePM > 0 {
		// the probe parks goroutines at log points for up to ProbeMaxMS each; an acknowledgement passes some
		// twenty of them on its way (target sender, shard manager, receiver, aggregation, upstream send). A
		// bound that ignores the delays the harness itself injects flagged a final ack that arrived 25.8 s
		// after the last confirmation (bound 22 s) in a 20x22-shard case with 840 ms parks - a false alarm
		need += time.Duration(20*sc.ProbeMaxMS) * time.Millisecond
	}
	reachedQuiescence := false
	for time.Since(start) < horizon {
		time.Sleep(time.Second)
		if w.allScriptsDone() {
			w.Rec.mu.Lock()
			idle := w.Rec.now() - w.Rec.lastProgressAt
			w.Rec.mu.Unlock()
			// quiescent: nothing was delivered, confirmed or newly acknowledged for the whole
			// bounded-progress window plus a margin
			if idle >= need.Milliseconds()+5000 {
				reachedQuiescence = true
				break
			}
		}
	}
	out := &Outcome{Counts: map[string]int64{}}
	w.evaluate(out, need, reachedQuiescence)
	cancel()
	time.Sleep(15 * time.Second)
	out.Leaked = diffCensus(base, goroutineCensus())
	out.Probe = w.Probe.HitTable()
	return out
}

func (w *World) allScriptsDone() bool {
	for _, c := range []*cluster{w.L, w.R} {
		c.mu.Lock()
		for i := 1; i <= c.n; i++ {
			if !c.scriptDone[i] {
				c.mu.Unlock()
				return false
			}
		}
		c.mu.Unlock()
	}
	return true
}

func (w *World) evaluate(out *Outcome, need time.Duration, quiescent bool) {
	r := w.Rec
	r.mu.Lock()
	sc := w.Sc
	// end-of-case oracles for the fair class: completeness (C02) and bounded progress (C03)
	if sc.Class == "fair" {
		if !quiescent {
			out.Inconclusive = "horizon reached before quiescence (scripts unfinished or still progressing)"
		} else {
			for _, c := range []*cluster{w.L, w.R} {
				for i := 1; i <= c.n; i++ {
					s := c.name(i)
					var missing []int64
					for id, ts := range r.unconf[s] {
						if ts.deliveries == 0 {
							missing = append(missing, id)
						}
					}
					if len(missing) > 0 {
						sort.Slice(missing, func(a, b int) bool { return missing[a] < missing[b] })
						r.violate("C02", "task-never-delivered", "tasks %v of %s were never sent to any target although every target kept reading (quiescence reached)", missing, s)
					}
					if n := len(r.unconf[s]); n > 0 && len(missing) == 0 {
						r.violate("C03", "stalled:unconfirmed-at-quiescence", "%d tasks of %s delivered but still unconfirmed at quiescence although all targets acknowledge", n, s)
					}
					fin := sc.Final[s]
					if len(sc.Scripts[s]) == 0 {
						continue
					}
					at, ok := r.finalAckAt[s]
					if !ok {
						r.violate("C03", "stalled:final-watermark-never-acked", "source %s never received an acknowledgement equal to its final high watermark %d (last ack %d) within %v of virtual time after the last confirmation, with every target acknowledging and the source repeating its watermark every %d ms",
							s, fin, r.srcLastAck[s], need, sc.PeriodMS)
					} else if ref := max(r.lastConfirmAt, r.lastResumeAt); at-ref > need.Milliseconds() && at > 0 {
						// (measured from the later of: last confirmation of a task, last time a stalled target resumed
						// reading - a final watermark queued in front of a target that does not read cannot be acknowledged
						// before it reads again; seed 4 fair/173: target stalled for 15.7 s after its tasks were confirmed)
						r.violate("C03", "stalled:final-watermark-late", "source %s got its final acknowledgement %d ms after the last confirmation / last resumed read (bound %d ms)", s, at-ref, need.Milliseconds())
					}
				}
			}
		}
	}
	w.tgtMu.Lock()
	for _, s := range w.trackerViol {
		if !faults(sc) {
			r.violate("C02", "tracker-model:"+strings.SplitN(strings.SplitN(s, ": ", 2)[1], " (", 2)[0], "%s", s)
		}
	}
	w.tgtMu.Unlock()
	out.Viol = append(out.Viol, r.Viol...)
	for k, v := range r.kindCount {
		out.Counts["ev_"+k] = v
	}
	out.Counts["events"] = int64(len(r.Events))
	out.Counts["src_acks_checked"] = r.acksChecked
	out.Counts["src_acks_nonvacuous"] = r.nonVacuousAcks
	out.Counts["max_targets_outstanding_at_ack"] = int64(r.maxOutstandingTargets)
	var tasks, delivered, confirmed int64
	for _, ts := range r.tasks {
		tasks++
		if ts.deliveries > 0 {
			delivered++
		}
		if ts.confirmed {
			confirmed++
		}
	}
	out.Counts["tasks"] = tasks
	out.Counts["tasks_delivered"] = delivered
	out.Counts["tasks_confirmed"] = confirmed
	out.Events = append(out.Events, r.Events...)
	r.mu.Unlock()
	out.Sig = r.InterleavingSig()
}

func (w *World) allScriptsDoneLocked() bool { return w.allScriptsDone() }

// goroutineCensus: goroutines with a frame in the repository's proxy package, by top proxy frame.
func goroutineCensus() map[string]int {
	buf := make([]byte, 1<<22)
	n := runtime.Stack(buf, true)
	out := map[string]int{}
	for _, g := range strings.Split(string(buf[:n]), "\n\n") {
		for _, ln := range strings.Split(g, "\n") {
			if strings.HasPrefix(ln, "github.com/temporalio/s2s-proxy/") {
				fn := ln
				if i := strings.LastIndex(fn, "("); i > 0 {
					fn = fn[:i]
				}
				out[fn]++
				break
			}
		}
	}
	return out
}

func diffCensus(base, now map[string]int) []string {
	var out []string
	for k, v := range now {
		if v > base[k] {
			out = append(out, fmt.Sprintf("%s x%d", k, v-base[k]))
		}
	}
	sort.Strings(out)
	return out
}

var _ adminservice.AdminServiceClient = (*cluster)(nil)

func (c *cluster) scriptsDone() bool {
	c.mu.Lock()
	defer c.mu.Unlock()
	for i := 1; i <= c.n; i++ {
		if !c.scriptDone[i] {
			return false
		}
	}
	return true
}

func (c *cluster) scriptDoneFor(i int) bool {
	c.mu.Lock()
	defer c.mu.Unlock()
	return c.scriptDone[i]
}
