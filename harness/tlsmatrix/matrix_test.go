package tlsmatrix

import (
	"context"
	"crypto/tls"
	"fmt"
	"io"
	"net"
	"os"
	"path/filepath"
	"strings"
	"sync"
	"testing"
	"time"

	"github.com/hashicorp/yamux"

	"github.com/temporalio/s2s-proxy/config"
	"github.com/temporalio/s2s-proxy/encryption"
	"github.com/temporalio/s2s-proxy/transport/mux"
	"verifharness/fakes"
	"verifharness/pki"
	"verifharness/rec"
)

const watchdog = 15 * time.Second

type row struct {
	Role      string `json:"role"`      // server | client (the proxy's role)
	Embedding string `json:"embedding"` // raw | mux
	Peer      string `json:"peer_credential"`
	Verify    bool   `json:"verification_on"`
	OwnCert   bool   `json:"own_certificate"`
	NoName    bool   `json:"no_server_name_configured,omitempty"` // client role: caServerName left empty
	// Interfere (client/mux): after the establisher's first attempt has been refused, another component of the
	// same process builds - through the proxy's own API - a client TLS configuration from the SAME certificate,
	// key and CA files with verification switched off (as a cluster connection with a verifying mux client on
	// one side and a non-verifying TCP client on the other does); the establisher's next reconnect must still
	// be refused
	Interfere bool `json:"second_config_same_files_verification_off,omitempty"`
}

func (r row) name() string {
	n := fmt.Sprintf("%s/%s/peer=%s/verify=%v/own=%v", r.Role, r.Embedding, r.Peer, r.Verify, r.OwnCert)
	if r.NoName {
		n += "/no-server-name"
	}
	if r.Interfere {
		n += "/second-config-verification-off"
	}
	return n
}

// expected: does a correct proxy complete a connection with this peer?
func expect(r row) (accept bool, why string) {
	if r.Role == "server" {
		if !r.OwnCert {
			return false, "a TLS listener without a certificate cannot complete any handshake"
		}
		if !r.Verify {
			return true, "verification explicitly disabled"
		}
		switch r.Peer {
		case "valid-ca1", "valid-ca1-second", "client-usage-only-ca1", "wrong-name-ca1":
			return true, "client certificate chains to the configured CA and is valid for client authentication (names are not checked for clients)"
		}
		return false, "client certificate does not chain to the configured CA, is outside its validity period, lacks client-auth usage, or is absent"
	}
	if !r.Verify {
		return true, "verification explicitly disabled"
	}
	if r.NoName {
		return false, "verification is on and no server name is configured: the configuration must be rejected or the server's certificate must still be verified"
	}
	switch r.Peer {
	case "valid-ca1", "valid-ca1-second", "server-usage-only-ca1":
		return true, "server certificate chains to the configured CA, is valid for server authentication and matches the configured name"
	}
	return false, "server certificate does not chain to the configured CA, is outside its validity, lacks server-auth usage or does not match the configured name"
}

type outcome struct {
	accepted     bool // an application round trip / yamux ping completed, seen from both ends
	proxyEndData bool // the proxy's end delivered or received application data
	detail       string
	inconclusive string
}

func clientTLS(p *pki.PKI, c *pki.Cred) *tls.Config {
	cfg := &tls.Config{RootCAs: p.CA1Pool, ServerName: "proxy.test", MinVersion: tls.VersionTLS12}
	// present the credential regardless of the CA hint the server sends
	cfg.GetClientCertificate = func(*tls.CertificateRequestInfo) (*tls.Certificate, error) {
		if c.TLSCert == nil {
			return &tls.Certificate{}, nil
		}
		return c.TLSCert, nil
	}
	return cfg
}

func proxyTLSConfig(p *pki.PKI, r row, own *pki.Cred) encryption.TLSConfig {
	cfg := encryption.TLSConfig{RemoteCAPath: p.CA1Path, SkipCAVerification: !r.Verify}
	if r.OwnCert {
		cfg.CertificatePath, cfg.KeyPath = own.CertPath, own.KeyPath
	}
	if r.Role == "client" {
		if !r.NoName {
			cfg.CAServerName = "proxy.test"
		}
	} else if !r.OwnCert {
		cfg.CAServerName = "proxy.test" // keeps TLS "enabled" without a key pair
	}
	return cfg
}

// ---- server role, raw listener ----
func serverRaw(p *pki.PKI, r row, probe *fakes.Probe) outcome {
	cfg, err := encryption.GetServerTLSConfig(proxyTLSConfig(p, r, p.Creds["valid-ca1-second"]), probe)
	if err != nil || cfg == nil {
		return outcome{detail: fmt.Sprintf("GetServerTLSConfig: %v", err), inconclusive: "could not build the server config"}
	}
	return serverRawHandshake(p, cfg, p.Creds[r.Peer])
}

// one connection of a harness client presenting cred to a raw TLS listener using the proxy's (already built) config
func serverRawHandshake(p *pki.PKI, cfg *tls.Config, cred *pki.Cred) outcome {
	ln, err := tls.Listen("tcp", "127.0.0.1:0", cfg)
	if err != nil {
		return outcome{inconclusive: err.Error()}
	}
	defer ln.Close()
	srvGot := make(chan string, 1)
	go func() {
		c, err := ln.Accept()
		if err != nil {
			srvGot <- "accept error: " + err.Error()
			return
		}
		defer c.Close()
		c.SetDeadline(time.Now().Add(watchdog))
		buf := make([]byte, 4)
		if _, err := io.ReadFull(c, buf); err != nil {
			srvGot <- "server read error: " + err.Error()
			return
		}
		c.Write([]byte("pong"))
		srvGot <- "data:" + string(buf)
	}()
	raw, err := net.DialTimeout("tcp", ln.Addr().String(), watchdog)
	if err != nil {
		return outcome{inconclusive: err.Error()}
	}
	defer raw.Close()
	c := tls.Client(raw, clientTLS(p, cred))
	c.SetDeadline(time.Now().Add(watchdog))
	var cliRes string
	if _, err := c.Write([]byte("ping")); err != nil {
		cliRes = "client write error: " + err.Error()
	} else {
		buf := make([]byte, 4)
		if _, err := io.ReadFull(c, buf); err != nil {
			cliRes = "client read error: " + err.Error()
		} else {
			cliRes = "data:" + string(buf)
		}
	}
	var srvRes string
	select {
	case srvRes = <-srvGot:
	case <-time.After(watchdog):
		return outcome{inconclusive: "server side did not finish within the watchdog", detail: cliRes}
	}
	o := outcome{detail: "proxy(server): " + srvRes + " | peer(client): " + cliRes}
	o.proxyEndData = strings.HasPrefix(srvRes, "data:")
	o.accepted = o.proxyEndData && cliRes == "data:pong"
	if strings.Contains(srvRes+cliRes, "i/o timeout") {
		o.inconclusive = "timeout"
	}
	return o
}

// ---- client role, raw dial ----
func clientRaw(p *pki.PKI, r row, probe *fakes.Probe) outcome {
	cfg, err := encryption.GetClientTLSConfig(proxyTLSConfig(p, r, p.Creds["valid-ca1-second"]))
	if err != nil || cfg == nil {
		return outcome{detail: fmt.Sprintf("GetClientTLSConfig: %v", err), inconclusive: "could not build the client config"}
	}
	return clientRawHandshake(cfg, p.Creds[r.Peer])
}

// one connection of the proxy's (already built) client config to a harness TLS server presenting peer
func clientRawHandshake(cfg *tls.Config, peer *pki.Cred) outcome {
	scfg := &tls.Config{Certificates: []tls.Certificate{*peer.TLSCert}, MinVersion: tls.VersionTLS12}
	ln, err := tls.Listen("tcp", "127.0.0.1:0", scfg)
	if err != nil {
		return outcome{inconclusive: err.Error()}
	}
	defer ln.Close()
	srvGot := make(chan string, 1)
	go func() {
		c, err := ln.Accept()
		if err != nil {
			srvGot <- "accept error: " + err.Error()
			return
		}
		defer c.Close()
		c.SetDeadline(time.Now().Add(watchdog))
		buf := make([]byte, 4)
		if _, err := io.ReadFull(c, buf); err != nil {
			srvGot <- "peer read error: " + err.Error()
			return
		}
		c.Write([]byte("pong"))
		srvGot <- "data:" + string(buf)
	}()
	raw, err := net.DialTimeout("tcp", ln.Addr().String(), watchdog)
	if err != nil {
		return outcome{inconclusive: err.Error()}
	}
	defer raw.Close()
	c := tls.Client(raw, cfg)
	c.SetDeadline(time.Now().Add(watchdog))
	var cliRes string
	if _, err := c.Write([]byte("ping")); err != nil {
		cliRes = "proxy write error: " + err.Error()
	} else {
		buf := make([]byte, 4)
		if _, err := io.ReadFull(c, buf); err != nil {
			cliRes = "proxy read error: " + err.Error()
		} else {
			cliRes = "data:" + string(buf)
		}
	}
	raw.Close()
	var srvRes string
	select {
	case srvRes = <-srvGot:
	case <-time.After(watchdog):
		return outcome{inconclusive: "peer side did not finish within the watchdog", detail: cliRes}
	}
	o := outcome{detail: "proxy(client): " + cliRes + " | peer(server): " + srvRes}
	o.proxyEndData = strings.HasPrefix(srvRes, "data:") // the proxy's application bytes reached the peer
	o.accepted = cliRes == "data:pong" && o.proxyEndData
	if strings.Contains(srvRes+cliRes, "i/o timeout") {
		o.inconclusive = "timeout"
	}
	return o
}

// ---- server role, real mux receiver ----
func serverMux(p *pki.PKI, r row, probe *fakes.Probe) outcome {
	life, cancel := context.WithCancel(context.Background())
	defer cancel()
	added := make(chan struct{}, 4)
	prov, err := mux.NewMuxReceiverProvider(life, "verif", func(s *yamux.Session, c net.Conn) { added <- struct{}{} }, 1,
		config.TCPTLSInfo{ConnectionString: "127.0.0.1:0", TLSConfig: proxyTLSConfig(p, r, p.Creds["valid-ca1-second"])}, []string{"127.0.0.1:0", "verif-mode", "verif"}, probe)
	if err != nil {
		return outcome{detail: fmt.Sprintf("NewMuxReceiverProvider: %v", err), inconclusive: "could not build the receiver"}
	}
	prov.Start()
	defer func() { cancel(); prov.WaitForClose() }()
	raw, err := net.DialTimeout("tcp", prov.Address(), watchdog)
	if err != nil {
		return outcome{inconclusive: err.Error()}
	}
	defer raw.Close()
	c := tls.Client(raw, clientTLS(p, p.Creds[r.Peer]))
	c.SetDeadline(time.Now().Add(watchdog))
	ycfg := yamux.DefaultConfig()
	ycfg.LogOutput = io.Discard
	ycfg.EnableKeepAlive = false
	sess, err := yamux.Client(c, ycfg)
	if err != nil {
		return outcome{inconclusive: err.Error()}
	}
	defer sess.Close()
	_, pingErr := sess.Ping()
	got := false
	if pingErr == nil {
		select {
		case <-added:
			got = true
		case <-time.After(3 * time.Second):
		}
	} else {
		select {
		case <-added:
			got = true
		case <-time.After(200 * time.Millisecond):
		}
	}
	o := outcome{detail: fmt.Sprintf("proxy(mux receiver): session registered=%v | peer(client): yamux ping err=%v", got, pingErr)}
	o.proxyEndData = got
	o.accepted = got && pingErr == nil
	if pingErr != nil && strings.Contains(pingErr.Error(), "timeout") && !got {
		o.inconclusive = "ping timeout"
	}
	return o
}

// ---- client role, real mux establisher ----
func clientMux(p *pki.PKI, r row, probe *fakes.Probe) outcome {
	peer := p.Creds[r.Peer]
	scfg := &tls.Config{Certificates: []tls.Certificate{*peer.TLSCert}, MinVersion: tls.VersionTLS12}
	ln, err := tls.Listen("tcp", "127.0.0.1:0", scfg)
	if err != nil {
		return outcome{inconclusive: err.Error()}
	}
	defer ln.Close()
	peerRes := make(chan string, 8)
	var wg sync.WaitGroup
	go func() {
		for {
			c, err := ln.Accept()
			if err != nil {
				return
			}
			wg.Add(1)
			go func() {
				defer wg.Done()
				defer c.Close()
				c.SetDeadline(time.Now().Add(watchdog))
				ycfg := yamux.DefaultConfig()
				ycfg.LogOutput = io.Discard
				ycfg.EnableKeepAlive = false
				s, err := yamux.Server(c, ycfg)
				if err != nil {
					peerRes <- "yamux error: " + err.Error()
					return
				}
				defer s.Close()
				if _, err := s.Ping(); err != nil {
					peerRes <- "peer ping error: " + err.Error()
					return
				}
				peerRes <- "ping-ok"
				time.Sleep(300 * time.Millisecond)
			}()
		}
	}()
	life, cancel := context.WithCancel(context.Background())
	added := make(chan struct{}, 4)
	set := config.TCPTLSInfo{ConnectionString: ln.Addr().String(), TLSConfig: proxyTLSConfig(p, r, p.Creds["valid-ca1-second"])}
	prov, err := mux.NewMuxEstablisherProvider(life, "verif", func(s *yamux.Session, c net.Conn) { added <- struct{}{} }, 1, set, []string{"127.0.0.1:0", "verif-mode", "verif"}, probe)
	if err != nil {
		cancel()
		return outcome{detail: fmt.Sprintf("NewMuxEstablisherProvider: %v", err), inconclusive: "could not build the establisher"}
	}
	prov.Start()
	got, pr := false, ""
	select {
	case <-added:
		got = true
	case pr = <-peerRes:
	case <-time.After(watchdog):
		cancel()
		return outcome{inconclusive: "neither a session nor a peer-side result within the watchdog"}
	}
	if r.Interfere && !got && pr != "ping-ok" {
		other := proxyTLSConfig(p, r, p.Creds["valid-ca1-second"])
		other.SkipCAVerification = true
		if _, err := encryption.GetClientTLSConfig(other); err != nil {
			cancel()
			return outcome{inconclusive: "could not build the second client configuration: " + err.Error()}
		}
		first := pr
		// the establisher retries with back-off (1 s, 1.5 s, ...): look at its next two attempts
		for k := 0; k < 2 && !got && pr != "ping-ok"; k++ {
			select {
			case <-added:
				got = true
			case pr = <-peerRes:
			case <-time.After(watchdog):
				cancel()
				return outcome{detail: "first attempt: " + first, inconclusive: "no further attempt of the establisher within the watchdog"}
			}
		}
	}
	if got {
		select {
		case pr = <-peerRes:
		case <-time.After(2 * time.Second):
		}
	} else if pr == "ping-ok" {
		select {
		case <-added:
			got = true
		case <-time.After(2 * time.Second):
		}
	}
	cancel()
	ln.Close()
	o := outcome{detail: fmt.Sprintf("proxy(mux establisher): session registered=%v | peer(server): %s", got, pr)}
	o.proxyEndData = got || pr == "ping-ok"
	o.accepted = got && pr == "ping-ok"
	return o
}

func TestMatrix(t *testing.T) {
	out := rec.Default()
	dir, err := os.MkdirTemp("", "verif-tls-*")
	if err != nil {
		t.Fatal(err)
	}
	defer os.RemoveAll(dir)
	p := pki.New(dir)
	// The host's trust store (read once per process, on first use) holds the FOREIGN CA: "other-ca" is then a
	// certificate the machine trusts although the configuration names a different CA - a client that lets the
	// system roots leak into its pool would accept it.
	empty := filepath.Join(dir, "no-certs")
	_ = os.Mkdir(empty, 0o755)
	os.Setenv("SSL_CERT_FILE", p.CA2Path)
	os.Setenv("SSL_CERT_DIR", empty)
	probe := fakes.NewProbe(1)
	var rows []row
	for _, role := range []string{"server", "client"} {
		for _, emb := range []string{"raw", "mux"} {
			for _, peer := range p.Order {
				if role == "client" && peer == "none" {
					continue // a TLS server cannot present "no certificate"
				}
				for _, verify := range []bool{true, false} {
					for _, own := range []bool{true, false} {
						rows = append(rows, row{Role: role, Embedding: emb, Peer: peer, Verify: verify, OwnCert: own})
						// client role, TLS enabled through the own key pair only, no server name configured: peers with a
						// bad certificate must still not be admitted (valid peers are not judged in these rows)
						if role == "client" && own && verify && !strings.HasPrefix(peer, "valid") && peer != "server-usage-only-ca1" {
							rows = append(rows, row{Role: role, Embedding: emb, Peer: peer, Verify: verify, OwnCert: own, NoName: true})
						}
						if role == "client" && emb == "mux" && own && verify && (peer == "self-signed" || peer == "other-ca" || peer == "expired-ca1" || peer == "wrong-name-ca1") {
							rows = append(rows, row{Role: role, Embedding: emb, Peer: peer, Verify: verify, OwnCert: own, Interfere: true})
						}
					}
				}
			}
		}
	}
	sampled := 0
	for idx, r := range rows {
		name := r.name()
		if !rec.Want(idx, name) {
			continue
		}
		out.Begin(name, r)
		var o outcome
		switch r.Role + "/" + r.Embedding {
		case "server/raw":
			o = serverRaw(p, r, probe)
		case "client/raw":
			o = clientRaw(p, r, probe)
		case "server/mux":
			o = serverMux(p, r, probe)
		default:
			o = clientMux(p, r, probe)
		}
		want, why := expect(r)
		l := rec.Line{Case: name, Class: name, Counts: map[string]int64{"handshakes": 1}}
		switch {
		case o.inconclusive != "" && !(o.accepted && !want):
			l.Verdict, l.Why = rec.Inconclusive, o.inconclusive+" ("+o.detail+")"
			if !want && !o.proxyEndData && strings.HasPrefix(o.inconclusive, "could not build") {
				// a config the proxy refuses to build admits nobody
				l.Verdict, l.Why = rec.Held, ""
				l.Counts["refused"] = 1
			}
		case o.accepted && !want:
			l.Viol = append(l.Viol, rec.Violation{Prop: "C19", Sig: fmt.Sprintf("admitted:%s:%s:peer=%s:verify=%v", r.Role, r.Embedding, r.Peer, r.Verify),
				What: fmt.Sprintf("proxy as %s (%s) completed a connection with a peer presenting %q although %s. %s", r.Role, r.Embedding, r.Peer, why, o.detail), Witness: r})
		case !o.accepted && want:
			l.Viol = append(l.Viol, rec.Violation{Prop: "C19", Sig: fmt.Sprintf("refused-valid:%s:%s:peer=%s:verify=%v:own=%v", r.Role, r.Embedding, r.Peer, r.Verify, r.OwnCert),
				What: fmt.Sprintf("proxy as %s (%s) refused a peer presenting %q although %s. %s", r.Role, r.Embedding, r.Peer, why, o.detail), Witness: r})
		case o.accepted:
			l.Counts["admitted"] = 1
		default:
			l.Counts["refused"] = 1
			if o.proxyEndData && r.Role == "server" {
				l.Viol = append(l.Viol, rec.Violation{Prop: "C19", Sig: "data-delivered-to-refused-peer:" + r.Peer, What: "the listener delivered application data from a peer it should refuse: " + o.detail, Witness: r})
			}
		}
		if sampled < 3 && r.Verify && r.OwnCert {
			sampled++
			l.Sample = map[string]any{"row": r, "expected_accept": want, "observed": o.detail}
		}
		out.End(l)
	}
	// Validity is judged when the peer connects, not when the configuration was built: the proxy's TLS configuration
	// is built FIRST; a CA1 leaf issued afterwards (a) expires / (b) becomes valid about 3 s later. The same
	// configuration object then sees the peer before and after that instant (raw embedding, both roles).
	idx := len(rows)
	for _, role := range []string{"server", "client"} {
		for _, kind := range []string{"expires-while-running-ca1", "becomes-valid-while-running-ca1"} {
			r := row{Role: role, Embedding: "raw", Peer: kind, Verify: true, OwnCert: true}
			name := r.name()
			idx++
			if !rec.Want(idx, name) {
				continue
			}
			out.Begin(name, r)
			l := rec.Line{Case: name, Class: name, Counts: map[string]int64{}}
			var scfg, ccfg *tls.Config
			var err error
			if role == "server" {
				scfg, err = encryption.GetServerTLSConfig(proxyTLSConfig(p, r, p.Creds["valid-ca1-second"]), probe)
			} else {
				ccfg, err = encryption.GetClientTLSConfig(proxyTLSConfig(p, r, p.Creds["valid-ca1-second"]))
			}
			if err != nil || (scfg == nil && ccfg == nil) {
				l.Verdict, l.Why = rec.Inconclusive, fmt.Sprintf("could not build the configuration: %v", err)
				out.End(l)
				continue
			}
			edge := time.Now().Truncate(time.Second).Add(4 * time.Second)
			var cred *pki.Cred
			if kind == "expires-while-running-ca1" {
				cred = p.IssueCA1(kind+"-"+role, time.Now().Add(-time.Hour), edge)
			} else {
				cred = p.IssueCA1(kind+"-"+role, edge, edge.Add(time.Hour))
			}
			shake := func() outcome {
				l.Counts["handshakes"]++
				if role == "server" {
					return serverRawHandshake(p, scfg, cred)
				}
				return clientRawHandshake(ccfg, cred)
			}
			wantBefore := kind == "expires-while-running-ca1"
			var phases []string
			judge := func(phase string, o outcome, want bool) {
				phases = append(phases, fmt.Sprintf("%s: accepted=%v (%s)", phase, o.accepted, o.detail))
				switch {
				case o.inconclusive != "" && !(o.accepted && !want):
					l.Verdict, l.Why = rec.Inconclusive, phase+": "+o.inconclusive+" ("+o.detail+")"
				case o.accepted && !want:
					l.Viol = append(l.Viol, rec.Violation{Prop: "C19", Sig: fmt.Sprintf("admitted:%s:raw:peer=%s:%s", role, kind, phase),
						What: fmt.Sprintf("proxy as %s (raw), configuration built before the certificate was issued: completed a connection with a peer whose CA1 certificate is outside its validity period at connection time (%s; validity edge %s, now %s). %s", role, phase, edge.Format(time.RFC3339), time.Now().Format(time.RFC3339Nano), o.detail), Witness: r})
				case !o.accepted && want:
					l.Viol = append(l.Viol, rec.Violation{Prop: "C19", Sig: fmt.Sprintf("refused-valid:%s:raw:peer=%s:%s", role, kind, phase),
						What: fmt.Sprintf("proxy as %s (raw), configuration built before the certificate was issued: refused a peer whose CA1 certificate is within its validity period at connection time (%s; validity edge %s, now %s). %s", role, phase, edge.Format(time.RFC3339), time.Now().Format(time.RFC3339Nano), o.detail), Witness: r})
				case o.accepted:
					l.Counts["admitted"]++
				default:
					l.Counts["refused"]++
				}
			}
			if time.Until(edge) > 1500*time.Millisecond {
				o := shake()
				if time.Until(edge) > 200*time.Millisecond { // finished well before the edge: the verdict is unambiguous
					judge("before-edge", o, wantBefore)
				}
			}
			time.Sleep(time.Until(edge) + 1500*time.Millisecond)
			judge("after-edge", shake(), !wantBefore)
			l.Counts["validity_edge_rows"] = 1
			l.Sample = map[string]any{"row": r, "phases": phases}
			out.End(l)
		}
	}
}
