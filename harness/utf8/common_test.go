// Package utf8: the real RepairUTF8Codec (and the history-blob repair path of the namespace
// translator) on wire bytes produced from the legacy gogo schema. Serves C17 and C18.
package utf8

import (
	"math/rand"
	"reflect"
	"strings"
	"unicode/utf8"

	"google.golang.org/grpc/mem"
	"google.golang.org/protobuf/proto"
	"google.golang.org/protobuf/reflect/protoreflect"

	"github.com/temporalio/s2s-proxy/proto/compat"
	"verifharness/gen"
)

type marshaler interface {
	Marshal() ([]byte, error)
}

func realUnmarshal(b []byte, into proto.Message) error {
	return compat.GetCodec().Unmarshal(mem.BufferSlice{mem.SliceBuffer(b)}, into)
}

// invalid byte runs: lone continuation, truncated 2/3/4-byte sequences, overlong, surrogate, 0xFF...
var badRuns = []string{"\x80", "\xbf\x80", "\xc3", "\xe2\x82", "\xf0\x9f\x98", "\xc0\xaf", "\xe0\x80\xaf", "\xed\xa0\x80", "\xff", "\xff\xff", "\xfe\xff\xfd", "\xf8\x88\x80\x80\x80", "\xf4\x90\x80\x80"}
var pieces = []string{"", "a", "boom", "héllo", "日本", "x y", "😀", "line\n", "tail"}

// dirty returns a string with invalid UTF-8 and the clean form expected after repair: the valid
// pieces joined by one U+FFFD per invalid run (runs of U+FFFD are collapsed before comparing, so a
// repair that emits one replacement per byte is accepted as well).
func dirty(rng *rand.Rand) (string, string) {
	n := 1 + rng.Intn(3)
	var d, c strings.Builder
	p := pieces[rng.Intn(len(pieces))]
	d.WriteString(p)
	c.WriteString(p)
	for i := 0; i < n; i++ {
		d.WriteString(badRuns[rng.Intn(len(badRuns))])
		c.WriteString("�")
		p = pieces[1+rng.Intn(len(pieces)-1)] // non-empty between runs so that runs stay separate
		d.WriteString(p)
		c.WriteString(p)
	}
	return d.String(), c.String()
}

func collapse(s string) string {
	for strings.Contains(s, "��") {
		s = strings.ReplaceAll(s, "��", "�")
	}
	return s
}

// walkStrings visits every string in a message (fields, list elements, map values).
func walkStrings(m protoreflect.Message, fn func(get func() string, set func(string))) {
	m.Range(func(f protoreflect.FieldDescriptor, v protoreflect.Value) bool {
		switch {
		case f.IsMap():
			v.Map().Range(func(k protoreflect.MapKey, mv protoreflect.Value) bool {
				if f.MapValue().Message() != nil {
					walkStrings(mv.Message(), fn)
				}
				return true
			})
		case f.IsList():
			l := v.List()
			for i := 0; i < l.Len(); i++ {
				i := i
				if f.Message() != nil {
					walkStrings(l.Get(i).Message(), fn)
				} else if f.Kind() == protoreflect.StringKind {
					fn(func() string { return l.Get(i).String() }, func(s string) { l.Set(i, protoreflect.ValueOfString(s)) })
				}
			}
		case f.Message() != nil:
			walkStrings(v.Message(), fn)
		case f.Kind() == protoreflect.StringKind:
			fn(func() string { return m.Get(f).String() }, func(s string) { m.Set(f, protoreflect.ValueOfString(s)) })
		}
		return true
	})
}

func normalised(m proto.Message) proto.Message {
	c := proto.Clone(m)
	walkStrings(c.ProtoReflect(), func(get func() string, set func(string)) {
		if s := get(); strings.Contains(s, "��") {
			set(collapse(s))
		}
	})
	return c
}

func invalidString(m proto.Message) (string, bool) {
	bad, found := "", false
	walkStrings(m.ProtoReflect(), func(get func() string, _ func(string)) {
		if !found && !utf8.ValidString(get()) {
			bad, found = get(), true
		}
	})
	return bad, found
}

type legacyRoot struct {
	r      gen.Method
	isResp bool
	md     protoreflect.MessageDescriptor
	lt     reflect.Type
	paths  []gen.LPath
}

func (l legacyRoot) String() string {
	side := "Request"
	if l.isResp {
		side = "Response"
	}
	return l.r.Service[strings.LastIndex(l.r.Service, ".")+1:] + "/" + l.r.Name + side
}

// legacyRoots: every request/response type of both services that has a legacy counterpart.
func legacyRoots() []legacyRoot {
	var out []legacyRoot
	for _, m := range gen.AllMethods() {
		for i, md := range []protoreflect.MessageDescriptor{m.In, m.Out} {
			lt, ok := gen.LegacyType(string(md.FullName()))
			if !ok {
				continue
			}
			out = append(out, legacyRoot{r: m, isResp: i == 1, md: md, lt: lt, paths: gen.LegacyFailurePaths(lt, 2, 16)})
		}
	}
	return out
}
