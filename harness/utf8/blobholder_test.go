package utf8

import (
	commonpb "go.temporal.io/api/common/v1"
	"go.temporal.io/server/api/adminservice/v1"
	"google.golang.org/protobuf/proto"
)

// adminRaw wraps a history blob in a real response type that carries history blobs.
type adminRaw struct{ blob *commonpb.DataBlob }

func (a *adminRaw) message() proto.Message {
	return &adminservice.GetWorkflowExecutionRawHistoryV2Response{HistoryBatches: []*commonpb.DataBlob{a.blob}}
}

func (a *adminRaw) current(m proto.Message) *commonpb.DataBlob {
	return m.(*adminservice.GetWorkflowExecutionRawHistoryV2Response).HistoryBatches[0]
}
