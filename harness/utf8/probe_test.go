package utf8

import (
	"fmt"
	"os"
	"reflect"
	"testing"

	"verifharness/gen"
)

// TestListSupported prints the roots that decode a message with one invalid failure message
// (development aid: the committed list in supported_roots.txt was produced with it).
func TestListSupported(t *testing.T) {
	if os.Getenv("VERIF_LIST_SUPPORTED") == "" {
		t.Skip()
	}
	for _, lr := range legacyRoots() {
		if len(lr.paths) == 0 {
			continue
		}
		v := reflect.New(lr.lt)
		f := gen.LegacyDescend(v, lr.paths[0])
		f.Message = "bad\xff"
		b, err := v.Interface().(marshaler).Marshal()
		if err != nil {
			fmt.Println("MARSHAL-ERR", lr, err)
			continue
		}
		if err := realUnmarshal(b, gen.New(lr.md)); err == nil {
			fmt.Println("SUPPORTED", lr, len(lr.paths))
		} else {
			fmt.Println("UNSUPPORTED", lr, len(lr.paths), err)
		}
	}
}
