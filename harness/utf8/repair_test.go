package utf8

import (
	_ "embed"
	"fmt"
	"math/rand"
	"reflect"
	"strings"
	"testing"

	commonpb "go.temporal.io/api/common/v1"
	enumspb "go.temporal.io/api/enums/v1"
	historypb "go.temporal.io/api/history/v1"
	"google.golang.org/protobuf/proto"
	"google.golang.org/protobuf/reflect/protoreflect"

	"github.com/temporalio/s2s-proxy/interceptor"
	failure122 "github.com/temporalio/s2s-proxy/proto/1_22/api/failure/v1"
	history122 "github.com/temporalio/s2s-proxy/proto/1_22/api/history/v1"
	"verifharness/fakes"
	"verifharness/gen"
	"verifharness/rec"
)

//go:embed supported_roots.txt
var supportedList string

func supported() map[string]bool {
	m := map[string]bool{}
	for _, l := range strings.Fields(supportedList) {
		m[l] = true
	}
	return m
}

func v(prop, sig, what string, w any) rec.Violation {
	return rec.Violation{Prop: prop, Sig: sig, What: what, Witness: w}
}

// chainTo returns the failure d levels below f (creating causes), d >= 1 returns f itself.
func chainTo(f *failure122.Failure, d int) *failure122.Failure {
	for i := 1; i < d; i++ {
		if f.Cause == nil {
			f.Cause = &failure122.Failure{Message: fmt.Sprintf("cause level %d", i+1)}
		}
		f = f.Cause
	}
	return f
}

// decodeBoth: W through the real codec; the clean twin through the standard codec.
func decodeBoth(lr legacyRoot, dirtyMsg, cleanMsg reflect.Value) (real, ref proto.Message, realErr, refErr error) {
	w, err := dirtyMsg.Interface().(marshaler).Marshal()
	if err != nil {
		return nil, nil, fmt.Errorf("harness: legacy marshal: %w", err), nil
	}
	w2, _ := cleanMsg.Interface().(marshaler).Marshal()
	real, ref = gen.New(lr.md), gen.New(lr.md)
	realErr = realUnmarshal(w, real)
	refErr = proto.Unmarshal(w2, ref)
	return
}

// TestReach serves C18: every structural path to a failure message in every supported root.
func TestReach(t *testing.T) {
	out := rec.Default()
	sup := supported()
	seen := map[string]bool{}
	idx := 0
	for _, lr := range legacyRoots() {
		if len(lr.paths) == 0 {
			continue
		}
		seen[lr.String()] = true
		idx++
		name := "reach/" + lr.String()
		if !rec.Want(idx, name) {
			continue
		}
		out.Begin(name, map[string]any{"root": lr.String(), "paths": len(lr.paths)})
		var viol []rec.Violation
		var classes []string
		counts := map[string]int64{}
		rng := rand.New(rand.NewSource(rec.Mix(rec.Seed(), name)))
		one := func(paths []gen.LPath, depth int, what string) {
			dm, cm := reflect.New(lr.lt), reflect.New(lr.lt)
			var cleans []string
			for _, p := range paths {
				d, c := dirty(rng)
				chainTo(gen.LegacyDescend(dm, p), depth).Message = d
				chainTo(gen.LegacyDescend(cm, p), depth).Message = c
				cleans = append(cleans, c)
			}
			real, ref, rerr, referr := decodeBoth(lr, dm, cm)
			counts["reach_cases"]++
			if referr != nil {
				counts["reference_undecodable"]++
				return
			}
			if rerr != nil {
				sig := "unrepaired:" + lr.String() + ":" + what
				if !sup[lr.String()] {
					sig = "unsupported-root:" + lr.String()
				}
				viol = append(viol, v("C18", sig, fmt.Sprintf("%s: invalid UTF-8 in the failure message at %s (cause depth %d) is not repaired: %v", lr, what, depth, rerr), nil))
				return
			}
			if s, bad := invalidString(real); bad {
				viol = append(viol, v("C18", "invalid-string-after-repair:"+lr.String(), fmt.Sprintf("%s: decode succeeded but a string is still invalid UTF-8: %q", lr, s), nil))
				return
			}
			if !proto.Equal(normalised(real), normalised(ref)) {
				viol = append(viol, v("C18", "repair-changed-other-data:"+lr.String()+":"+what, fmt.Sprintf("%s: after repair at %s the message differs from the same message built with the sanitised text", lr, what), map[string]any{"got": fmt.Sprint(real), "want": fmt.Sprint(ref)}))
				return
			}
			counts["repaired_ok"]++
		}
		for _, p := range lr.paths {
			for _, d := range []int{1, 2, 5, 10} {
				one([]gen.LPath{p}, d, p.String())
			}
			classes = append(classes, lr.String()+":"+p.String())
		}
		one(lr.paths, 1, "<all paths at once>")
		one(lr.paths, 3, "<all paths at once>")
		if rec.Thorough() {
			// every supported depth, many invalid strings per (path, depth); random subsets of paths at once
			for _, p := range lr.paths {
				for d := 1; d <= 10; d++ {
					for k := 0; k < 12; k++ {
						one([]gen.LPath{p}, d, p.String())
					}
				}
			}
			for k := 0; k < 400; k++ {
				var sub []gen.LPath
				for _, p := range lr.paths {
					if rng.Intn(3) == 0 {
						sub = append(sub, p)
					}
				}
				if len(sub) > 0 {
					one(sub, 1+rng.Intn(10), fmt.Sprintf("<%d paths at once>", len(sub)))
				}
			}
		}
		out.End(rec.Line{Case: name, Viol: dedupeV(viol), Counts: counts, Classes: classes,
			Sample: map[string]any{"root": lr.String(), "first_path": lr.paths[0].String(), "paths": len(lr.paths)}})
	}
	// a root that used to be supported must still exist with failure paths
	idx++
	if rec.Want(idx, "reach/roots") {
		out.Begin("reach/roots", nil)
		var viol []rec.Violation
		for r := range sup {
			if !seen[r] {
				viol = append(viol, v("C18", "supported-root-vanished:"+r, "root "+r+" was down-convertible when the list was recorded and no longer has a legacy counterpart with failure paths", nil))
			}
		}
		out.End(rec.Line{Case: "reach/roots", Viol: viol, Counts: map[string]int64{"supported_roots": int64(len(sup))}, Class: "roots"})
	}
}

func dedupeV(vs []rec.Violation) []rec.Violation {
	seen := map[string]bool{}
	var out []rec.Violation
	for _, x := range vs {
		if !seen[x.Sig] {
			seen[x.Sig] = true
			out = append(out, x)
		}
	}
	return out
}

// TestRepair serves C17.
func TestRepair(t *testing.T) {
	out := rec.Default()
	roots := legacyRoots()
	sup := supported()
	n := 4000
	if rec.Thorough() {
		n = 8000000
	}
	idx := 0
	for k := 0; k < n; k += 50 {
		idx++
		name := fmt.Sprintf("repair/%d", k)
		if !rec.Want(idx, name) {
			continue
		}
		out.Begin(name, nil)
		rng := rand.New(rand.NewSource(rec.Mix(rec.Seed(), name)))
		var viol []rec.Violation
		var sample any
		counts := map[string]int64{}
		classes := map[string]bool{}
		for j := 0; j < 50; j++ {
			lr := roots[rng.Intn(len(roots))]
			if rng.Intn(3) > 0 { // favour roots that can carry failures
				for tries := 0; tries < 20 && len(lr.paths) == 0; tries++ {
					lr = roots[rng.Intn(len(roots))]
				}
			}
			dm := reflect.New(lr.lt)
			gen.PopulateLegacy(dm, rng, 0, 7, 0.4)
			b0, err := dm.Interface().(marshaler).Marshal()
			if err != nil {
				counts["harness_marshal_errors"]++
				continue
			}
			cm := reflect.New(lr.lt)
			if err := cm.Interface().(interface{ Unmarshal([]byte) error }).Unmarshal(b0); err != nil {
				counts["harness_marshal_errors"]++
				continue
			}
			mode := rng.Intn(6)
			switch mode {
			case 0: // (1) valid data: identical to the standard codec
				real, ref := gen.New(lr.md), gen.New(lr.md)
				e1, e2 := realUnmarshal(b0, real), proto.Unmarshal(b0, ref)
				counts["valid_messages"]++
				if (e1 == nil) != (e2 == nil) || e1 == nil && !proto.Equal(real, ref) {
					viol = append(viol, v("C17", "valid-data-differs:"+lr.String(), fmt.Sprintf("%s: valid wire data decodes differently through the repair codec (err %v) and the standard codec (err %v)", lr, e1, e2), nil))
				}
				classes["valid|"+lr.String()] = true
			case 1, 2: // (2) invalid bytes only in failure messages, 1..n sites, chains up to the supported depth
				var fd, fc []*failure122.Failure
				gen.LegacyFailures(dm, &fd, map[uintptr]bool{})
				gen.LegacyFailures(cm, &fc, map[uintptr]bool{})
				if len(fd) == 0 || len(fd) != len(fc) || !sup[lr.String()] {
					if len(lr.paths) == 0 || !sup[lr.String()] {
						continue
					}
					p := lr.paths[rng.Intn(len(lr.paths))]
					fd = []*failure122.Failure{gen.LegacyDescend(dm, p)}
					fc = []*failure122.Failure{gen.LegacyDescend(cm, p)}
				}
				sites := 1 + rng.Intn(3)
				for s := 0; s < sites; s++ {
					i := rng.Intn(len(fd))
					// depth: existing chain length may already be > 1; stay within 10 levels in total
					depth := 1 + rng.Intn(10)
					fdd, fcc := fd[i], fc[i]
					lvl := 1
					for lvl < depth {
						if fdd.Cause == nil {
							fdd.Cause, fcc.Cause = &failure122.Failure{Message: "c"}, &failure122.Failure{Message: "c"}
						}
						fdd, fcc = fdd.Cause, fcc.Cause
						lvl++
					}
					d, c := dirty(rng)
					fdd.Message, fcc.Message = d, c
				}
				if tooDeep(fd) {
					continue
				}
				real, ref, rerr, referr := decodeBoth(lr, dm, cm)
				counts["dirty_failure_messages"]++
				if referr != nil {
					continue
				}
				classes["dirty-failure|"+lr.String()] = true
				if rerr != nil {
					viol = append(viol, v("C17", "repairable-message-rejected:"+lr.String(), fmt.Sprintf("%s: invalid UTF-8 only in failure messages (within the supported depth), yet decoding failed: %v", lr, rerr), nil))
				} else if s, bad := invalidString(real); bad {
					viol = append(viol, v("C17", "corrupt-string-passed-on:"+lr.String(), fmt.Sprintf("%s: decoding succeeded with an invalid UTF-8 string %q", lr, s), nil))
				} else if !proto.Equal(normalised(real), normalised(ref)) {
					viol = append(viol, v("C17", "repair-not-faithful:"+lr.String(), fmt.Sprintf("%s: repaired message differs from the message built with the sanitised text (more than the offending bytes changed)", lr), map[string]any{"got": fmt.Sprint(real), "want": fmt.Sprint(ref)}))
				} else {
					counts["repaired_faithfully"]++
					if sample == nil {
						w, _ := dm.Interface().(marshaler).Marshal()
						sample = map[string]any{"mode": "invalid UTF-8 in failure messages", "root": lr.String(), "wire_bytes_hex_head": fmt.Sprintf("%x", w[:min(len(w), 96)]), "decoded": fmt.Sprint(real)[:min(len(fmt.Sprint(real)), 400)]}
					}
				}
			case 3: // (3a) invalid UTF-8 in a string that is not a failure message: must be an error
				var ss []reflect.Value
				gen.LegacyStringSetters(dm, &ss, map[uintptr]bool{})
				if len(ss) == 0 {
					continue
				}
				d, _ := dirty(rng)
				ss[rng.Intn(len(ss))].SetString(d)
				b, err := dm.Interface().(marshaler).Marshal()
				if err != nil {
					continue
				}
				real, ref := gen.New(lr.md), gen.New(lr.md)
				e1, e2 := realUnmarshal(b, real), proto.Unmarshal(b, ref)
				counts["dirty_other_strings"]++
				classes["dirty-other|"+lr.String()] = true
				if e2 == nil { // the dirty string sat in a field unknown to the current schema
					if e1 != nil || !proto.Equal(real, ref) {
						viol = append(viol, v("C17", "valid-data-differs:"+lr.String(), fmt.Sprintf("%s: data the standard codec accepts decodes differently through the repair codec: %v", lr, e1), nil))
					}
					continue
				}
				if e1 == nil {
					if s, bad := invalidString(real); bad {
						viol = append(viol, v("C17", "corrupt-string-passed-on:"+lr.String(), fmt.Sprintf("%s: invalid UTF-8 outside failure messages came back with a nil error: %q", lr, s), nil))
					} else {
						viol = append(viol, v("C17", "unrepairable-accepted:"+lr.String(), fmt.Sprintf("%s: invalid UTF-8 in a non-failure string field was accepted (error expected)", lr), nil))
					}
				} else {
					counts["rejected_as_expected"]++
				}
			case 4: // (3b) chain deeper than the supported depth with a dirty message somewhere
				if len(lr.paths) == 0 || !sup[lr.String()] {
					continue
				}
				p := lr.paths[rng.Intn(len(lr.paths))]
				f := gen.LegacyDescend(dm, p)
				total := 11 + rng.Intn(4)
				chainTo(f, total)
				d, _ := dirty(rng)
				chainTo(f, 1+rng.Intn(total)).Message = d
				b, err := dm.Interface().(marshaler).Marshal()
				if err != nil {
					continue
				}
				real := gen.New(lr.md)
				e1 := realUnmarshal(b, real)
				counts["too_deep_chains"]++
				classes["too-deep|"+lr.String()] = true
				if e1 == nil {
					if s, bad := invalidString(real); bad {
						viol = append(viol, v("C17", "corrupt-string-passed-on:"+lr.String(), fmt.Sprintf("%s: failure chain beyond the supported depth came back with nil error and an invalid string %q", lr, s), nil))
					}
				} else {
					counts["rejected_as_expected"]++
				}
			default: // (3c) truncated / garbled encodings: same verdict as the standard codec, no panic
				b := append([]byte{}, b0...)
				if len(b) == 0 {
					continue
				}
				if rng.Intn(2) == 0 {
					b = b[:rng.Intn(len(b))]
				} else {
					for f := 0; f < 1+rng.Intn(3); f++ {
						b[rng.Intn(len(b))] ^= byte(1 << uint(rng.Intn(8)))
					}
				}
				real, ref := gen.New(lr.md), gen.New(lr.md)
				e1, e2 := realUnmarshal(b, real), proto.Unmarshal(b, ref)
				counts["garbled_encodings"]++
				classes["garbled|"+lr.String()] = true
				switch {
				case e2 == nil && (e1 != nil || !proto.Equal(real, ref)):
					viol = append(viol, v("C17", "valid-data-differs:"+lr.String(), fmt.Sprintf("%s: garbled but acceptable data decodes differently through the repair codec: %v", lr, e1), nil))
				case e2 != nil && e1 == nil:
					if s, bad := invalidString(real); bad {
						viol = append(viol, v("C17", "corrupt-string-passed-on:"+lr.String(), fmt.Sprintf("%s: garbled data came back with nil error and invalid string %q", lr, s), nil))
					} else if !strings.Contains(strings.ToLower(e2.Error()), "invalid utf-8") {
						viol = append(viol, v("C17", "garbled-data-accepted:"+lr.String(), fmt.Sprintf("%s: the standard codec rejects this encoding (%v) but the repair codec accepted it", lr, e2), nil))
					}
				}
			}
		}
		var cl []string
		for c := range classes {
			cl = append(cl, c)
		}
		out.End(rec.Line{Case: name, Viol: dedupeV(viol), Counts: counts, Classes: cl, Sample: sample})
	}
	// current-schema random messages (fields unknown to the legacy schema included)
	m := 2000
	if rec.Thorough() {
		m = 4000000
	}
	var all []protoreflect.MessageDescriptor
	for _, mm := range gen.AllMethods() {
		all = append(all, mm.In, mm.Out)
	}
	for k := 0; k < m; k += 100 {
		idx++
		name := fmt.Sprintf("valid-current/%d", k)
		if !rec.Want(idx, name) {
			continue
		}
		out.Begin(name, nil)
		rng := rand.New(rand.NewSource(rec.Mix(rec.Seed(), name)))
		var viol []rec.Violation
		for j := 0; j < 100; j++ {
			md := all[rng.Intn(len(all))]
			msg := gen.Populate(md, &gen.PopOpts{Rng: rng, MaxDepth: 6, NamePool: []string{"ns"}, KeyPool: []string{"k"}, FieldProb: 0.4, BlobEvents: 2})
			b, err := proto.Marshal(msg)
			if err != nil {
				continue
			}
			real := gen.New(md)
			if e := realUnmarshal(b, real); e != nil || !proto.Equal(real, msg) {
				viol = append(viol, v("C17", "valid-data-differs:"+string(md.Name()), fmt.Sprintf("%s: valid current-schema message does not round-trip through the repair codec: %v", md.Name(), e), nil))
			}
		}
		out.End(rec.Line{Case: name, Viol: dedupeV(viol), Counts: map[string]int64{"valid_messages": 100}, Class: name})
	}
	// history-blob repair path of the namespace translator
	idx++
	if rec.Want(idx, "blob-repair") {
		out.Begin("blob-repair", nil)
		probe := fakes.NewProbe(1)
		var viol []rec.Violation
		counts := map[string]int64{}
		rng := rand.New(rand.NewSource(rec.Seed()))
		et := reflect.TypeOf(history122.HistoryEvent{})
		evPaths := gen.LegacyFailurePaths(et, 2, 10)
		for k := 0; k < 600; k++ {
			nEv := 1 + rng.Intn(4)
			var evs []*history122.HistoryEvent
			var cleanEvs []*history122.HistoryEvent
			dirtyAt := rng.Intn(nEv)
			for i := 0; i < nEv; i++ {
				e, c := reflect.New(et), reflect.New(et)
				p := evPaths[rng.Intn(len(evPaths))]
				msgD, msgC := "fine", "fine"
				if i == dirtyAt || rng.Intn(4) == 0 {
					msgD, msgC = dirty(rng)
				}
				depth := 1 + rng.Intn(4)
				chainTo(gen.LegacyDescend(e, p), depth).Message = msgD
				chainTo(gen.LegacyDescend(c, p), depth).Message = msgC
				ev, cv := e.Interface().(*history122.HistoryEvent), c.Interface().(*history122.HistoryEvent)
				ev.EventId, cv.EventId = int64(i+1), int64(i+1)
				evs, cleanEvs = append(evs, ev), append(cleanEvs, cv)
			}
			hb, err1 := (&history122.History{Events: evs}).Marshal()
			cb, err2 := (&history122.History{Events: cleanEvs}).Marshal()
			if err1 != nil || err2 != nil {
				continue
			}
			// namespace mapping that does / does not match anything in the message
			mapping := map[string]string{"nothing-here": "x"}
			resp := gen.New((&historypb.History{}).ProtoReflect().Descriptor())
			_ = resp
			msgD := &adminRaw{blob: &commonpb.DataBlob{EncodingType: enumspb.ENCODING_TYPE_PROTO3, Data: hb}}
			tr := interceptor.NewNamespaceNameTranslator(probe, mapping, mapping)
			holder := msgD.message()
			_, err := tr.TranslateResponse(holder)
			counts["blob_repairs"]++
			var want historypb.History
			if e := proto.Unmarshal(cb, &want); e != nil {
				continue
			}
			if err != nil {
				viol = append(viol, v("C17", "blob-repairable-rejected", fmt.Sprintf("history blob with invalid UTF-8 only in failure messages: translator error %v", err), nil))
				continue
			}
			var got historypb.History
			if e := proto.Unmarshal(msgD.current(holder).Data, &got); e != nil {
				viol = append(viol, v("C17", "blob-passed-on-corrupted", fmt.Sprintf("translator reported success but passed on a history blob the standard decoder rejects: %v (dirty event %d of %d)", e, dirtyAt+1, nEv), nil))
				continue
			}
			if !proto.Equal(normalised(&got), normalised(&want)) {
				viol = append(viol, v("C17", "blob-repair-not-faithful", "history blob after repair differs from the blob built with the sanitised text", nil))
				continue
			}
			counts["blob_repaired_faithfully"]++
		}
		out.End(rec.Line{Case: "blob-repair", Viol: dedupeV(viol), Counts: counts, Class: "blob-repair"})
	}
}

func tooDeep(fs []*failure122.Failure) bool {
	for _, f := range fs {
		n := 0
		for ; f != nil; f = f.Cause {
			n++
		}
		if n > 10 {
			return true
		}
	}
	return false
}
