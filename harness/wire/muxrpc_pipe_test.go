package wire

// C11 over in-process pipes: the harness plays the mux manager (it builds real managed sessions over net.Pipe
// and delivers the session-list updates through the ConnListener interface) so that it can register a session
// whose peer has stopped reading - on such a session opening a stream blocks until yamux gives up (10 s) - and
// change the session list while gRPC's dial of that endpoint is stuck. The update must be applied at once, the
// health probe must answer, and calls must reach the new session.

import (
	"context"
	"fmt"
	"net"
	"sort"
	"strings"
	"sync"
	"testing"
	"time"

	"github.com/hashicorp/yamux"
	"go.temporal.io/server/api/adminservice/v1"
	"google.golang.org/grpc"

	"github.com/temporalio/s2s-proxy/metrics"
	"github.com/temporalio/s2s-proxy/transport/grpcutil"
	"github.com/temporalio/s2s-proxy/transport/mux/session"
	"verifharness/rec"
)

// openSpy tells when a stream open on this session has begun
type openSpy struct {
	session.ManagedMuxSession
	once    sync.Once
	started chan struct{}
}

func (s *openSpy) Open() (net.Conn, error) {
	s.once.Do(func() { close(s.started) })
	return s.ManagedMuxSession.Open()
}

func pipeSession(ctx context.Context, id string, frozen bool, cleanup *[]func()) session.ManagedMuxSession {
	near, far := net.Pipe()
	yc := yamux.DefaultConfig()
	yc.LogOutput = discard{}
	cm, err := yamux.Client(near, yc)
	if err != nil {
		panic(err)
	}
	if frozen {
		// nobody ever reads from far: every write on the session blocks
		*cleanup = append(*cleanup, func() { far.Close(); near.Close() })
		return session.NewManagedMuxSession(ctx, id, cm, near, nil, func() {})
	}
	yc2 := yamux.DefaultConfig()
	yc2.LogOutput = discard{}
	sm, err := yamux.Server(far, yc2)
	if err != nil {
		panic(err)
	}
	srv := grpc.NewServer()
	adminservice.RegisterAdminServiceServer(srv, &tagged{tag: "peer-" + id})
	go srv.Serve(sm)
	*cleanup = append(*cleanup, func() { srv.Stop(); sm.Close(); far.Close(); near.Close() })
	return session.NewManagedMuxSession(ctx, id, cm, near, nil, func() {})
}

func muxPipe(variant string) (viol []rec.Violation, counts map[string]int64, inconclusive string, sample any) {
	counts = map[string]int64{}
	v := func(sig, f string, a ...any) {
		viol = append(viol, rec.Violation{Prop: "C11", Sig: "pipe:" + sig, What: fmt.Sprintf(f, a...), Witness: variant})
	}
	ctx, cancel := context.WithCancel(context.Background())
	defer cancel()
	var cleanup []func()
	defer func() {
		for _, f := range cleanup {
			f()
		}
	}()
	mcc, err := grpcutil.NewMultiClientConn(ctx, "verif-pipe", grpcutil.MakeDialOptions(nil, metrics.GetGRPCClientMetrics("outbound"))...)
	if err != nil {
		return nil, counts, "NewMultiClientConn: " + err.Error(), nil
	}
	s0 := pipeSession(ctx, "0", false, &cleanup)
	stuck := &openSpy{ManagedMuxSession: pipeSession(ctx, "1", true, &cleanup), started: make(chan struct{})}
	first := map[string]session.ManagedMuxSession{"0": s0, "1": stuck}
	if variant == "stuck-session-added-later" {
		mcc.OnConnectionListUpdate(map[string]session.ManagedMuxSession{"0": s0})
		time.Sleep(200 * time.Millisecond)
	}
	mcc.OnConnectionListUpdate(first)
	client := adminservice.NewAdminServiceClient(mcc)
	stop := make(chan struct{})
	var wg sync.WaitGroup
	var smu sync.Mutex
	served := map[string]int{}
	for g := 0; g < 3; g++ {
		wg.Add(1)
		go func() {
			defer wg.Done()
			for {
				select {
				case <-stop:
					return
				default:
				}
				c2, cc := context.WithTimeout(context.Background(), 800*time.Millisecond)
				resp, err := client.DescribeCluster(c2, &adminservice.DescribeClusterRequest{})
				cc()
				if err == nil {
					smu.Lock()
					served[resp.ClusterName]++
					smu.Unlock()
				}
				time.Sleep(3 * time.Millisecond)
			}
		}()
	}
	defer func() { close(stop); wg.Wait() }()
	select {
	case <-stuck.started:
		counts["dials_stuck_in_open"]++
	case <-time.After(15 * time.Second):
		return nil, counts, "gRPC never dialled the endpoint of the unresponsive session", nil
	}
	time.Sleep(50 * time.Millisecond)
	// the session list changes while that dial is stuck: session 1 is dropped, a new healthy session 2 appears
	s2 := pipeSession(ctx, "2", false, &cleanup)
	applied := make(chan time.Duration, 1)
	t0 := time.Now()
	go func() {
		mcc.OnConnectionListUpdate(map[string]session.ManagedMuxSession{"0": s0, "2": s2})
		applied <- time.Since(t0)
	}()
	select {
	case d := <-applied:
		counts["updates_applied_while_a_dial_was_stuck"]++
		counts["update_apply_ms_max"] = max(counts["update_apply_ms_max"], d.Milliseconds())
	case <-time.After(4 * time.Second):
		v("session-list-update-blocked-by-stuck-dial", "a session-list update (unresponsive session dropped, new session added) delivered while gRPC's dial of the unresponsive session was inside Open() had not been applied after 4 s")
	}
	// endpoints == registered set
	keys := func() string { k := endpointKeys(mcc); sort.Strings(k); return strings.Join(k, ",") }
	if !waitUntil(3*time.Second, func() bool { return keys() == "0,2" }) && len(viol) == 0 {
		v("endpoint-set-differs", "after the update {0,2} the client connection may dial endpoints {%s}", keys())
	}
	// the health probe answers
	probe := make(chan bool, 1)
	go func() { probe <- mcc.CanMakeCalls() }()
	select {
	case ok := <-probe:
		if !ok {
			v("can-make-calls-wrong", "CanMakeCalls() = false with two registered sessions")
		}
		counts["health_probes_answered"]++
	case <-time.After(3 * time.Second):
		if len(viol) == 0 {
			v("health-probe-hangs", "CanMakeCalls() did not answer within 3 s while a dial of an unresponsive session was in progress")
		}
	}
	// calls reach the new session
	if !waitUntil(6*time.Second, func() bool { smu.Lock(); defer smu.Unlock(); return served["peer-2"] > 0 }) && len(viol) == 0 {
		v("new-session-never-used", "no RPC was served by the new session within 6 s of its registration")
	} else {
		counts["rpcs_reached_new_session"]++
	}
	smu.Lock()
	sample = map[string]any{"variant": variant, "served": served}
	smu.Unlock()
	return
}

func TestMuxRPCPipe(t *testing.T) {
	out := rec.Default()
	for idx, variant := range []string{"stuck-session-from-start", "stuck-session-added-later"} {
		name := "muxrpc-pipe/" + variant
		if !rec.Want(idx+5, name) {
			continue
		}
		out.Begin(name, map[string]any{"variant": variant})
		viol, counts, inc, sample := muxPipe(variant)
		l := rec.Line{Case: name, Viol: dedupe(viol), Counts: counts, Class: name, Sample: sample}
		if inc != "" && len(viol) == 0 {
			l.Verdict, l.Why = rec.Inconclusive, inc
		}
		out.End(l)
	}
}
