package wire

// C09, routing clause, messages towards a reachable remote owner over an intra-proxy stream that
// breaks: ONE assembled proxy instance A (real servers, real memberlist) and a harness peer H that
//   - joins A's memberlist as a real member and announces ownership of the target shard L:1,
//   - serves the intra-proxy streams A opens to it, and
//   - opens the intra-proxy stream A forwards L:1's messages on (the harness is the "client" whose
//     server side in A is the intraProxyStreamSender).
// The source shard R:2 (harness) sends single-task batches that all belong to L:1, one at a time on
// command, so nothing is ever in flight when the harness breaks its stream. The window in which A's
// sender has seen the stream end but is still registered is held open at the code's own log point
// (probe logger); a task sent by the source inside that window can only be forwarded on the dead
// stream. Oracle: every task the source sent is received by H (on some incarnation of its stream) -
// a task that never arrives although the owner is known, announced and connected was dropped.

import (
	"context"
	"encoding/json"
	"fmt"
	"net"
	"strconv"
	"strings"
	"sync"
	"testing"
	"time"

	farm "github.com/dgryski/go-farm"
	"github.com/hashicorp/memberlist"
	"go.temporal.io/server/api/adminservice/v1"
	persistencespb "go.temporal.io/server/api/persistence/v1"
	replicationv1 "go.temporal.io/server/api/replication/v1"
	"go.temporal.io/server/client/history"
	"go.temporal.io/server/common/log/tag"
	"google.golang.org/grpc"
	"google.golang.org/grpc/credentials/insecure"
	"google.golang.org/grpc/metadata"

	"github.com/temporalio/s2s-proxy/common"
	"github.com/temporalio/s2s-proxy/config"
	"github.com/temporalio/s2s-proxy/proxy"
	"verifharness/fakes"
	"verifharness/rec"
)

// miniCluster: a fake Temporal cluster, source role step-controlled.
type miniCluster struct {
	adminservice.UnimplementedAdminServiceServer
	id, n int
	lis   net.Listener
	srv   *grpc.Server
	mu    sync.Mutex
	out   map[int]chan *replicationv1.WorkflowReplicationMessages // per source shard: batches to send
	high  map[int]int64
	acks  map[int]int64 // highest ack seen per source shard
	got   map[string]int // target role: task mark -> times received
}

func newMiniCluster(id, n int) *miniCluster {
	lis, _ := net.Listen("tcp", "127.0.0.1:0")
	c := &miniCluster{id: id, n: n, lis: lis, out: map[int]chan *replicationv1.WorkflowReplicationMessages{}, high: map[int]int64{}, acks: map[int]int64{}, got: map[string]int{}}
	for i := 1; i <= n; i++ {
		c.out[i] = make(chan *replicationv1.WorkflowReplicationMessages, 16)
	}
	c.srv = grpc.NewServer()
	adminservice.RegisterAdminServiceServer(c.srv, c)
	go c.srv.Serve(lis)
	return c
}

func (c *miniCluster) DescribeCluster(context.Context, *adminservice.DescribeClusterRequest) (*adminservice.DescribeClusterResponse, error) {
	return &adminservice.DescribeClusterResponse{ClusterName: fmt.Sprintf("mini-%d", c.id), HistoryShardCount: int32(c.n)}, nil
}

func (c *miniCluster) StreamWorkflowReplicationMessages(st adminservice.AdminService_StreamWorkflowReplicationMessagesServer) error {
	md, _ := metadata.FromIncomingContext(st.Context())
	shard := 0
	if v := md.Get(history.MetadataKeyServerShardID); len(v) > 0 {
		shard, _ = strconv.Atoi(v[0])
	}
	if shard < 1 || shard > c.n {
		return fmt.Errorf("no such shard %d", shard)
	}
	go func() {
		for {
			m, err := st.Recv()
			if err != nil {
				return
			}
			c.mu.Lock()
			if a := m.GetSyncReplicationState().GetInclusiveLowWatermark(); a > c.acks[shard] {
				c.acks[shard] = a
			}
			c.mu.Unlock()
		}
	}()
	for {
		var msgs *replicationv1.WorkflowReplicationMessages
		select {
		case msgs = <-c.out[shard]:
			c.mu.Lock()
			c.high[shard] = msgs.ExclusiveHighWatermark
			c.mu.Unlock()
		case <-time.After(300 * time.Millisecond):
			c.mu.Lock()
			msgs = &replicationv1.WorkflowReplicationMessages{ExclusiveHighWatermark: c.high[shard]}
			c.mu.Unlock()
		case <-st.Context().Done():
			return nil
		}
		if err := st.Send(&adminservice.StreamWorkflowReplicationMessagesResponse{Attributes: &adminservice.StreamWorkflowReplicationMessagesResponse_Messages{Messages: msgs}}); err != nil {
			return nil
		}
	}
}

// target role: one shard of this cluster pulls through the proxy; everything is acknowledged at once
func (c *miniCluster) runTarget(ctx context.Context, proxyAddr string, shard int) {
	conn, err := grpc.NewClient(proxyAddr, grpc.WithTransportCredentials(insecure.NewCredentials()))
	if err != nil {
		return
	}
	defer conn.Close()
	peer := 3 - c.id
	sctx := metadata.NewOutgoingContext(ctx, metadata.Pairs(history.MetadataKeyClientClusterID, fmt.Sprint(c.id), history.MetadataKeyClientShardID, fmt.Sprint(shard),
		history.MetadataKeyServerClusterID, fmt.Sprint(peer), history.MetadataKeyServerShardID, fmt.Sprint(shard)))
	st, err := adminservice.NewAdminServiceClient(conn).StreamWorkflowReplicationMessages(sctx)
	if err != nil {
		return
	}
	for {
		m, err := st.Recv()
		if err != nil {
			return
		}
		c.mu.Lock()
		for _, t := range m.GetMessages().GetReplicationTasks() {
			c.got[t.GetRawTaskInfo().GetRunId()]++
		}
		c.mu.Unlock()
		_ = st.Send(&adminservice.StreamWorkflowReplicationMessagesRequest{Attributes: &adminservice.StreamWorkflowReplicationMessagesRequest_SyncReplicationState{
			SyncReplicationState: &replicationv1.SyncReplicationState{InclusiveLowWatermark: m.GetMessages().GetExclusiveHighWatermark()}}})
	}
}

// harness peer: memberlist delegate announcing its shards
type peerDelegate struct{ state []byte }

func (d *peerDelegate) NodeMeta(limit int) []byte {
	if len(d.state) > limit {
		return []byte("peer-h")
	}
	return d.state
}
func (d *peerDelegate) NotifyMsg([]byte)                           {}
func (d *peerDelegate) GetBroadcasts(overhead, limit int) [][]byte { return nil }
func (d *peerDelegate) LocalState(join bool) []byte                { return d.state }
func (d *peerDelegate) MergeRemoteState(buf []byte, join bool)     {}

// harness peer: serves the streams A opens to it (it would be the sender there): holds them open
type peerServer struct {
	adminservice.UnimplementedAdminServiceServer
	opened chan string
}

func (p *peerServer) StreamWorkflowReplicationMessages(st adminservice.AdminService_StreamWorkflowReplicationMessagesServer) error {
	select {
	case p.opened <- "opened":
	default:
	}
	go func() {
		for {
			if _, err := st.Recv(); err != nil {
				return
			}
		}
	}()
	<-st.Context().Done()
	return nil
}

// one incarnation of the harness's intra-proxy client stream to A
type peerStreamInc struct {
	cancel context.CancelFunc
	st     adminservice.AdminService_StreamWorkflowReplicationMessagesClient
	ended  chan struct{}
}

type peerH struct {
	mu   sync.Mutex
	got  map[string][]int // task mark -> incarnations it arrived on
	incs int
}

func (h *peerH) open(ctx context.Context, conn *grpc.ClientConn, target, source history.ClusterShardID) (*peerStreamInc, error) {
	sctx, cancel := context.WithCancel(ctx)
	sctx = metadata.NewOutgoingContext(sctx, metadata.Pairs(
		history.MetadataKeyClientClusterID, fmt.Sprint(target.ClusterID), history.MetadataKeyClientShardID, fmt.Sprint(target.ShardID),
		history.MetadataKeyServerClusterID, fmt.Sprint(source.ClusterID), history.MetadataKeyServerShardID, fmt.Sprint(source.ShardID)))
	sctx = common.WithIntraProxyHeaders(sctx, map[string]string{common.IntraProxyOriginProxyIDHeader: "peer-h"})
	st, err := adminservice.NewAdminServiceClient(conn).StreamWorkflowReplicationMessages(sctx)
	if err != nil {
		cancel()
		return nil, err
	}
	h.mu.Lock()
	h.incs++
	inc := h.incs
	h.mu.Unlock()
	p := &peerStreamInc{cancel: cancel, st: st, ended: make(chan struct{})}
	go func() {
		defer close(p.ended)
		for {
			m, err := st.Recv()
			if err != nil {
				return
			}
			h.mu.Lock()
			for _, t := range m.GetMessages().GetReplicationTasks() {
				mark := t.GetRawTaskInfo().GetRunId()
				h.got[mark] = append(h.got[mark], inc)
			}
			h.mu.Unlock()
			if w := m.GetMessages().GetExclusiveHighWatermark(); w > 0 {
				_ = st.Send(&adminservice.StreamWorkflowReplicationMessagesRequest{Attributes: &adminservice.StreamWorkflowReplicationMessagesRequest_SyncReplicationState{
					SyncReplicationState: &replicationv1.SyncReplicationState{InclusiveLowWatermark: w}}})
			}
		}
	}()
	return p, nil
}

func (h *peerH) received(mark string) int {
	h.mu.Lock()
	defer h.mu.Unlock()
	return len(h.got[mark])
}

type peerSenderCase struct {
	Ending    string `json:"ending"`    // cancel | half-close
	Reconnect string `json:"reconnect"` // after-unwind | before-unwind
}

func waitUntil(d time.Duration, f func() bool) bool {
	dl := time.Now().Add(d)
	for time.Now().Before(dl) {
		if f() {
			return true
		}
		time.Sleep(10 * time.Millisecond)
	}
	return f()
}

func peerSender(pc peerSenderCase, seed int64) (viol []rec.Violation, counts map[string]int64, inconclusive string, sample any) {
	counts = map[string]int64{}
	v := func(sig, f string, a ...any) {
		viol = append(viol, rec.Violation{Prop: "C09", Sig: "peer-sender:" + sig, What: fmt.Sprintf(f, a...), Witness: pc})
	}
	ctx, cancel := context.WithCancel(context.Background())
	defer cancel()
	L, R := newMiniCluster(1, 2), newMiniCluster(2, 2)
	defer L.srv.Stop()
	defer R.srv.Stop()
	T := history.ClusterShardID{ClusterID: 1, ShardID: 1} // owned by the harness peer
	S := history.ClusterShardID{ClusterID: 2, ShardID: 2} // source shard whose stream instance A holds

	// harness peer's own gRPC server
	hl, err := net.Listen("tcp", "127.0.0.1:0")
	if err != nil {
		return nil, counts, "listen: " + err.Error(), nil
	}
	hs := &peerServer{opened: make(chan string, 8)}
	hsrv := grpc.NewServer()
	adminservice.RegisterAdminServiceServer(hsrv, hs)
	go hsrv.Serve(hl)
	defer hsrv.Stop()

	// instance A
	inA, outA, mlA := freeAddr(), freeAddr(), freePort(true)
	probe := fakes.NewProbe(seed)
	var amu sync.Mutex
	armed := false
	parked := make(chan string, 8)
	release := make(chan struct{}, 8)
	var lmu sync.Mutex
	logCount := map[string]int{}
	probe.Sink = func(level, msg string, tags []tag.Tag) {
		for _, k := range []string{"RegisterSender", "UnregisterSender", "Failed to forward replication messages to shard owner", "closePeerShardLocked"} {
			if strings.HasPrefix(msg, k) {
				lmu.Lock()
				logCount[k]++
				lmu.Unlock()
			}
		}
	}
	logged := func(k string) int { lmu.Lock(); defer lmu.Unlock(); return logCount[k] }
	probe.OnHit = func(msg string, _ int) {
		if !strings.HasPrefix(msg, "intraProxyStreamSender recvAck encountered") {
			return
		}
		amu.Lock()
		a := armed
		armed = false
		amu.Unlock()
		if !a {
			return
		}
		parked <- msg
		select {
		case <-release:
		case <-time.After(60 * time.Second):
		}
	}
	cc, err := proxy.NewClusterConnection(ctx, config.ClusterConnConfig{Name: "verif-peer-sender",
		Local:            config.ClusterDefinition{ConnectionType: config.ConnTypeTCP, TcpClient: config.TCPTLSInfo{ConnectionString: L.lis.Addr().String()}, TcpServer: config.TCPTLSInfo{ConnectionString: outA}},
		Remote:           config.ClusterDefinition{ConnectionType: config.ConnTypeTCP, TcpClient: config.TCPTLSInfo{ConnectionString: R.lis.Addr().String()}, TcpServer: config.TCPTLSInfo{ConnectionString: inA}},
		ShardCountConfig: config.ShardCountConfig{Mode: config.ShardCountRouting, LocalShardCount: 2, RemoteShardCount: 2},
		MemberlistConfig: &config.MemberlistConfig{Enabled: true, NodeName: "proxy-a", BindAddr: "127.0.0.1", BindPort: mlA,
			ProxyAddresses: map[string]string{"proxy-a": outA, "peer-h": hl.Addr().String()}},
	}, probe)
	if err != nil {
		return nil, counts, "NewClusterConnection: " + err.Error(), nil
	}
	cc.Start()
	// A's own shards: L:2 and R:2 connect to it
	go R.runTarget(ctx, inA, 2)
	go L.runTarget(ctx, outA, 2)
	time.Sleep(500 * time.Millisecond)

	// the harness peer joins the memberlist announcing L:1
	st := proxy.NodeShardState{NodeName: "peer-h", Updated: time.Now(), Shards: map[string]proxy.ShardInfo{
		proxy.ClusterShardIDtoShortString(T): {ID: T, Created: time.Now()}}}
	buf, _ := json.Marshal(st)
	mc := memberlist.DefaultLocalConfig()
	mc.Name, mc.BindAddr, mc.BindPort, mc.AdvertiseAddr = "peer-h", "127.0.0.1", freePort(true), "127.0.0.1"
	mc.AdvertisePort = mc.BindPort
	mc.Delegate = &peerDelegate{state: buf}
	mc.LogOutput = discard{}
	ml, err := memberlist.Create(mc)
	if err != nil {
		return nil, counts, "memberlist: " + err.Error(), nil
	}
	defer ml.Shutdown()
	if !waitUntil(10*time.Second, func() bool { _, e := ml.Join([]string{fmt.Sprintf("127.0.0.1:%d", mlA)}); return e == nil }) {
		return nil, counts, "the harness peer could not join the instance's memberlist", nil
	}

	// the harness's intra-proxy stream (kept up by re-opening when A ends it, as a peer's reconcile does)
	conn, err := grpc.NewClient(outA, grpc.WithTransportCredentials(insecure.NewCredentials()))
	if err != nil {
		return nil, counts, "dial: " + err.Error(), nil
	}
	defer conn.Close()
	H := &peerH{got: map[string][]int{}}
	var cur *peerStreamInc
	openWait := func(minRegs int) string {
		// open, and wait until A has registered the sender for it; re-open if A ends the stream (an
		// instance that does not know the peer's shards yet prunes the sender and - since 0ed3c18 - ends it)
		dl := time.Now().Add(25 * time.Second)
		for time.Now().Before(dl) {
			p, err := H.open(ctx, conn, T, S)
			if err != nil {
				time.Sleep(200 * time.Millisecond)
				continue
			}
			cur = p
			ok := waitUntil(3*time.Second, func() bool {
				select {
				case <-p.ended:
					return true
				default:
				}
				return logged("RegisterSender") >= minRegs
			})
			select {
			case <-p.ended:
				counts["peer_stream_ended_by_instance"]++
				time.Sleep(300 * time.Millisecond)
				continue
			default:
			}
			if ok {
				// stable for a moment? (a reconcile that prunes comes within a second)
				time.Sleep(1200 * time.Millisecond)
				select {
				case <-p.ended:
					counts["peer_stream_ended_by_instance"]++
					minRegs = logged("RegisterSender") + 1
					continue
				default:
					return ""
				}
			}
			p.cancel()
		}
		return "the instance never kept the harness peer's intra-proxy stream registered"
	}
	if e := openWait(1); e != "" {
		return nil, counts, e, nil
	}

	// tasks of source R:2 that all belong to L:1
	nextID := int64(500)
	mkTask := func() (string, *replicationv1.WorkflowReplicationMessages) {
		for {
			id := nextID
			nextID++
			ns, wf := "ns-x", fmt.Sprintf("wf-%d", id)
			if int(farm.Fingerprint32([]byte(ns+"_"+wf))%2)+1 != 1 {
				continue
			}
			mark := fmt.Sprintf("R:2 %d", id)
			return mark, &replicationv1.WorkflowReplicationMessages{ExclusiveHighWatermark: id + 1, ReplicationTasks: []*replicationv1.ReplicationTask{{SourceTaskId: id,
				RawTaskInfo: &persistencespb.ReplicationTaskInfo{NamespaceId: ns, WorkflowId: wf, RunId: mark, TaskId: id, Version: 5}}}}
		}
	}
	var sent []string
	send := func() string {
		mark, m := mkTask()
		sent = append(sent, mark)
		R.out[2] <- m
		counts["tasks_sent"]++
		return mark
	}

	// 1. healthy forward
	t1 := send()
	if !waitUntil(15*time.Second, func() bool { return H.received(t1) >= 1 }) {
		return nil, counts, "the first task never reached the harness peer over a healthy stream (setup)", nil
	}
	counts["forwarded_over_healthy_stream"]++

	// 2. the harness breaks its stream; A's sender sees it and is held before it unregisters
	amu.Lock()
	armed = true
	amu.Unlock()
	old := cur
	if pc.Ending == "half-close" {
		_ = old.st.CloseSend()
	} else {
		old.cancel()
	}
	var where string
	select {
	case where = <-parked:
	case <-time.After(15 * time.Second):
		return nil, counts, "the instance's sender never noticed the end of the peer's stream", nil
	}
	counts["termination_windows_held"]++
	regsBefore := logged("RegisterSender")
	unregsBefore := logged("UnregisterSender")

	// 3. inside the window the source sends the next task: it can only be forwarded on the dead stream
	t2 := send()
	time.Sleep(1500 * time.Millisecond)
	counts["tasks_sent_into_window"]++

	if pc.Reconnect == "before-unwind" {
		// the peer re-establishes its stream before the old handler has unwound
		if pc.Ending == "half-close" {
			old.cancel()
		}
		p, err := H.open(ctx, conn, T, S)
		if err != nil {
			return nil, counts, "re-open: " + err.Error(), nil
		}
		cur = p
		if !waitUntil(10*time.Second, func() bool { return logged("RegisterSender") > regsBefore }) {
			release <- struct{}{}
			return nil, counts, "the instance did not register the re-established stream while the old one was unwinding", nil
		}
		release <- struct{}{}
		waitUntil(5*time.Second, func() bool { return logged("UnregisterSender") > unregsBefore })
	} else {
		release <- struct{}{}
		if !waitUntil(10*time.Second, func() bool { return logged("UnregisterSender") > unregsBefore }) {
			return nil, counts, "the old sender never unregistered", nil
		}
		if pc.Ending == "half-close" {
			old.cancel()
		}
		if e := openWait(regsBefore + 1); e != "" {
			return nil, counts, e, nil
		}
	}
	// 4. the stream is back (and A keeps ending/reopening it only if it prunes): t2 must arrive, then t3
	deadline := 25 * time.Second
	keepUp := func(done func() bool) bool {
		dl := time.Now().Add(deadline)
		for time.Now().Before(dl) {
			if done() {
				return true
			}
			select {
			case <-cur.ended:
				// A ended the stream (e.g. pruned it): a peer re-opens on its next reconcile
				counts["peer_stream_ended_by_instance"]++
				time.Sleep(500 * time.Millisecond)
				if p, err := H.open(ctx, conn, T, S); err == nil {
					cur = p
				}
			default:
				time.Sleep(20 * time.Millisecond)
			}
		}
		return done()
	}
	if !keepUp(func() bool { return H.received(t2) >= 1 }) {
		v("task-sent-after-stream-end-never-arrived", "task %q, sent by the source after the instance had seen the peer's intra-proxy stream end (%s, held at %q), never reached the owner although its stream was re-established (%s): %d forward failures reported, senders registered %d, unregistered %d",
			t2, pc.Ending, where, pc.Reconnect, logged("Failed to forward replication messages to shard owner"), logged("RegisterSender"), logged("UnregisterSender"))
	}
	t3 := send()
	if !keepUp(func() bool { return H.received(t3) >= 1 }) {
		v("task-after-reconnect-never-arrived", "task %q, sent after the peer had re-established its intra-proxy stream (%s / %s), never reached the owner within %s: %d forward failures reported, senders registered %d, unregistered %d",
			t3, pc.Ending, pc.Reconnect, deadline, logged("Failed to forward replication messages to shard owner"), logged("RegisterSender"), logged("UnregisterSender"))
	}
	for _, mark := range []string{t1, t3} {
		if n := H.received(mark); n > 1 {
			v("delivered-twice", "task %q reached the owner %d times", mark, n)
		}
	}
	H.mu.Lock()
	for _, mark := range sent {
		if len(H.got[mark]) >= 1 {
			counts["tasks_received_by_owner"]++
		}
	}
	sample = map[string]any{"case": pc, "window_held_at": where, "received_on_incarnations": H.got, "forward_failures_reported": logged("Failed to forward replication messages to shard owner")}
	H.mu.Unlock()
	counts["forward_failures_reported"] += int64(logged("Failed to forward replication messages to shard owner"))
	cancel()
	time.Sleep(200 * time.Millisecond)
	return
}

type discard struct{}

func (discard) Write(p []byte) (int, error) { return len(p), nil }

func TestPeerSender(t *testing.T) {
	out := rec.Default()
	cases := []peerSenderCase{{"cancel", "after-unwind"}, {"cancel", "before-unwind"}, {"half-close", "after-unwind"}, {"half-close", "before-unwind"}}
	for idx, pc := range cases {
		name := fmt.Sprintf("peer-sender/%s/%s", pc.Ending, pc.Reconnect)
		if !rec.Want(idx+3, name) { // (offset: spread over the children next to the three cluster-routing cases)
			continue
		}
		out.Begin(name, pc)
		viol, counts, inc, sample := peerSender(pc, rec.Mix(rec.Seed(), name))
		l := rec.Line{Case: name, Viol: dedupe(viol), Counts: counts, Class: name, Sample: sample}
		if inc != "" && len(viol) == 0 {
			l.Verdict, l.Why = rec.Inconclusive, inc
		}
		out.End(l)
	}
}
