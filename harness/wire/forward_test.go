package wire

import (
	"context"
	"fmt"
	"io"
	"sync"
	"testing"
	"time"

	"go.temporal.io/server/api/adminservice/v1"
	replicationv1 "go.temporal.io/server/api/replication/v1"
	"go.temporal.io/server/client/history"
	"google.golang.org/grpc"
	"google.golang.org/grpc/codes"
	"google.golang.org/grpc/credentials/insecure"
	"google.golang.org/grpc/metadata"
	"google.golang.org/grpc/status"
	"google.golang.org/protobuf/proto"

	"github.com/temporalio/s2s-proxy/config"
	"github.com/temporalio/s2s-proxy/proxy"
	"verifharness/fakes"
	"verifharness/rec"
)

// C06 through the assembled proxy over real gRPC (default mode): faithful relay in both directions and
// the ways a stream can end, including the one the in-memory engine cannot produce - proxy shutdown.

type streamSource struct {
	adminservice.UnimplementedAdminServiceServer
	mu       sync.Mutex
	gotAcks  []*adminservice.StreamWorkflowReplicationMessagesRequest
	toSend   []*adminservice.StreamWorkflowReplicationMessagesResponse
	endWith  string // after sending: "hold" | "eof" | "error"
	ended    chan string
	recvDone chan struct{}
}

func (s *streamSource) StreamWorkflowReplicationMessages(st adminservice.AdminService_StreamWorkflowReplicationMessagesServer) error {
	go func() {
		defer close(s.recvDone)
		for {
			m, err := st.Recv()
			if err != nil {
				s.ended <- "source saw: " + status.Code(err).String() + "/" + fmt.Sprint(err == io.EOF)
				return
			}
			s.mu.Lock()
			s.gotAcks = append(s.gotAcks, m)
			s.mu.Unlock()
		}
	}()
	for _, m := range s.toSend {
		if err := st.Send(m); err != nil {
			return err
		}
	}
	switch s.endWith {
	case "eof":
		time.Sleep(200 * time.Millisecond)
		return nil
	case "error":
		time.Sleep(200 * time.Millisecond)
		return status.Error(codes.Unavailable, "source going away")
	}
	select {
	case <-st.Context().Done():
	case <-s.recvDone:
	}
	return nil
}

func forwardWire(ending string) (viol []rec.Violation, counts map[string]int64, inconclusive string) {
	counts = map[string]int64{}
	v := func(sig, f string, a ...any) {
		viol = append(viol, rec.Violation{Prop: "C06", Sig: "wire:" + sig, What: fmt.Sprintf(f, a...)})
	}
	src := &streamSource{ended: make(chan string, 4), recvDone: make(chan struct{})}
	for i := 0; i < 8; i++ {
		src.toSend = append(src.toSend, &adminservice.StreamWorkflowReplicationMessagesResponse{Attributes: &adminservice.StreamWorkflowReplicationMessagesResponse_Messages{
			Messages: &replicationv1.WorkflowReplicationMessages{ExclusiveHighWatermark: int64(100 + i), ReplicationTasks: []*replicationv1.ReplicationTask{{SourceTaskId: int64(99 + i)}}}}})
	}
	switch ending {
	case "source-eof":
		src.endWith = "eof"
	case "source-error":
		src.endWith = "error"
	default:
		src.endWith = "hold"
	}
	lis := newFakeCluster("unused-remote")
	defer lis.stop()
	srv := grpc.NewServer()
	adminservice.RegisterAdminServiceServer(srv, src)
	l2 := newFakeCluster("placeholder")
	l2.stop()
	sl, err := netListen()
	if err != nil {
		return nil, counts, err.Error()
	}
	go srv.Serve(sl)
	defer srv.Stop()
	inAddr, outAddr := freeAddr(), freeAddr()
	life, cancel := context.WithCancel(context.Background())
	defer cancel()
	cc, err := proxy.NewClusterConnection(life, config.ClusterConnConfig{Name: "verif-fwd",
		Local:  config.ClusterDefinition{ConnectionType: config.ConnTypeTCP, TcpClient: config.TCPTLSInfo{ConnectionString: sl.Addr().String()}, TcpServer: config.TCPTLSInfo{ConnectionString: outAddr}},
		Remote: config.ClusterDefinition{ConnectionType: config.ConnTypeTCP, TcpClient: config.TCPTLSInfo{ConnectionString: lis.addr()}, TcpServer: config.TCPTLSInfo{ConnectionString: inAddr}},
	}, fakes.NewProbe(1))
	if err != nil {
		return nil, counts, "NewClusterConnection: " + err.Error()
	}
	cc.Start()
	conn, err := grpc.NewClient(inAddr, grpc.WithTransportCredentials(insecure.NewCredentials()))
	if err != nil {
		return nil, counts, err.Error()
	}
	defer conn.Close()
	ictx, icancel := context.WithCancel(metadata.NewOutgoingContext(context.Background(), metadata.Pairs(
		history.MetadataKeyClientClusterID, "2", history.MetadataKeyClientShardID, "1", history.MetadataKeyServerClusterID, "1", history.MetadataKeyServerShardID, "1")))
	defer icancel()
	st, err := adminservice.NewAdminServiceClient(conn).StreamWorkflowReplicationMessages(ictx)
	if err != nil {
		return nil, counts, "open stream: " + err.Error()
	}
	var sentAcks []*adminservice.StreamWorkflowReplicationMessagesRequest
	for j := 0; j < 5; j++ {
		a := &adminservice.StreamWorkflowReplicationMessagesRequest{Attributes: &adminservice.StreamWorkflowReplicationMessagesRequest_SyncReplicationState{
			SyncReplicationState: &replicationv1.SyncReplicationState{InclusiveLowWatermark: int64(90 + j/2), HighPriorityState: &replicationv1.ReplicationState{InclusiveLowWatermark: int64(j)}}}}
		sentAcks = append(sentAcks, a)
		if err := st.Send(a); err != nil {
			return nil, counts, "send ack: " + err.Error()
		}
	}
	// relay: everything the source sent arrives, in order, unmodified
	var got []*adminservice.StreamWorkflowReplicationMessagesResponse
	initiatorEnd := make(chan error, 1)
	go func() {
		for {
			m, err := st.Recv()
			if err != nil {
				initiatorEnd <- err
				return
			}
			got = append(got, m)
		}
	}()
	time.Sleep(600 * time.Millisecond)
	switch ending {
	case "initiator-cancel":
		icancel()
	case "proxy-shutdown":
		cancel()
	case "initiator-halfclose":
		_ = st.CloseSend()
	}
	var ierr error
	select {
	case ierr = <-initiatorEnd:
		counts["initiator_saw_end"] = 1
	case <-time.After(12 * time.Second):
		v("termination:initiator-side-left-open:"+ending, "ending %q: 12 s later the initiator's stream is still open (no terminal status)", ending)
	}
	select {
	case how := <-src.ended:
		counts["source_saw_end"] = 1
		_ = how
	case <-time.After(12 * time.Second):
		v("termination:source-side-left-open:"+ending, "ending %q: 12 s later the source's stream is still open (its Recv has not returned)", ending)
	}
	_ = ierr
	if len(got) > len(src.toSend) {
		v("relay:extra-messages", "initiator received %d messages, the source sent %d", len(got), len(src.toSend))
	}
	for i := range got {
		if i < len(src.toSend) && !proto.Equal(got[i], src.toSend[i]) {
			v("relay:source-to-initiator", "message %d differs from what the source sent", i)
			break
		}
	}
	if (ending == "source-eof" || ending == "proxy-shutdown" || ending == "initiator-halfclose") && len(got) != len(src.toSend) {
		v("relay:lost-messages:"+ending, "ending %q after the source had sent %d messages to a prompt initiator: only %d arrived", ending, len(src.toSend), len(got))
	}
	src.mu.Lock()
	for i := range src.gotAcks {
		if i < len(sentAcks) && !proto.Equal(src.gotAcks[i], sentAcks[i]) {
			v("relay:initiator-to-source", "ack %d differs from what the initiator sent", i)
			break
		}
	}
	if len(src.gotAcks) != len(sentAcks) {
		v("relay:acks-lost", "the initiator sent %d acks on a healthy stream, the source received %d", len(sentAcks), len(src.gotAcks))
	}
	src.mu.Unlock()
	counts["relayed_source_msgs"] = int64(len(got))
	return
}

func TestForwardWire(t *testing.T) {
	out := rec.Default()
	for idx, e := range []string{"source-eof", "source-error", "initiator-cancel", "initiator-halfclose", "proxy-shutdown"} {
		name := "forward-wire/" + e
		if !rec.Want(idx, name) {
			continue
		}
		out.Begin(name, map[string]any{"ending": e})
		viol, counts, inc := forwardWire(e)
		counts["wire_endings"] = 1
		l := rec.Line{Case: name, Viol: dedupe(viol), Counts: counts, Class: name}
		if inc != "" && len(viol) == 0 {
			l.Verdict, l.Why = rec.Inconclusive, inc
		}
		out.End(l)
	}
}
