package wire

import (
	"context"
	"fmt"
	"math/rand"
	"sort"
	"testing"
	"time"

	"go.temporal.io/server/client/history"
	"google.golang.org/grpc"
	"google.golang.org/grpc/codes"
	"google.golang.org/grpc/metadata"
	"google.golang.org/grpc/status"

	"github.com/temporalio/s2s-proxy/config"
	"verifharness/gen"
	"verifharness/rec"
)

type aclCase struct {
	Name     string   `json:"name"`
	Mux      bool     `json:"inbound_mux"`
	Policy   string   `json:"policy"` // none | list
	Allowed  []string `json:"allowed_admin_methods"`
	Reversed bool     `json:"admin_methods_first"`
}

// callMethod invokes one method on conn and returns the status code.
func callMethod(conn *grpc.ClientConn, m gen.Method, hdr string) codes.Code {
	ctx, cancel := context.WithTimeout(context.Background(), 10*time.Second)
	defer cancel()
	pairs := []string{}
	switch hdr {
	case "translation-off":
		pairs = append(pairs, "s2s-request-translation", "false")
	case "intra-proxy": // a remote caller dressing its call up as traffic between two instances of this proxy
		pairs = append(pairs, "x-s2s-intra-proxy", "1", "x-s2s-origin-proxy-id", "someone-else", "x-s2s-hop-count", "1")
	}
	if m.ClientStreaming || m.ServerStreaming {
		pairs = append(pairs, history.MetadataKeyClientClusterID, "2", history.MetadataKeyClientShardID, "1", history.MetadataKeyServerClusterID, "1", history.MetadataKeyServerShardID, "1")
		ctx = metadata.NewOutgoingContext(ctx, metadata.Pairs(pairs...))
		sctx, scancel := context.WithTimeout(ctx, 1500*time.Millisecond)
		defer scancel()
		st, err := conn.NewStream(sctx, &grpc.StreamDesc{ClientStreams: true, ServerStreams: true}, m.FullName)
		if err != nil {
			return status.Code(err)
		}
		_ = st.SendMsg(gen.New(m.In))
		err = st.RecvMsg(gen.New(m.Out))
		if status.Code(err) == codes.DeadlineExceeded {
			return codes.OK // served: the stream stayed open until our own deadline
		}
		return status.Code(err)
	}
	ctx = metadata.NewOutgoingContext(ctx, metadata.Pairs(pairs...))
	err := conn.Invoke(ctx, m.FullName, gen.New(m.In), gen.New(m.Out))
	return status.Code(err)
}

func runACL(c aclCase) (viol []rec.Violation, counts map[string]int64, inconclusive string) {
	counts = map[string]int64{}
	v := func(sig, f string, a ...any) {
		viol = append(viol, rec.Violation{Prop: "C15", Sig: sig, What: fmt.Sprintf(f, a...), Witness: c})
	}
	a, err := assemble(c.Mux, func(cfg *config.ClusterConnConfig) {
		if c.Policy != "none" {
			cfg.ACLPolicy = &config.ACLPolicy{AllowedMethods: config.AllowedMethods{AdminService: c.Allowed}}
		}
	})
	if err != nil {
		return nil, counts, "could not assemble the proxy: " + err.Error()
	}
	defer a.close()
	conn, err := a.dialInbound()
	if err != nil {
		return nil, counts, "could not reach the inbound server: " + err.Error()
	}
	defer conn.Close()
	allowed := map[string]bool{}
	for _, m := range c.Allowed {
		allowed[m] = true
	}
	methods := gen.AllMethods()
	if c.Reversed {
		sort.SliceStable(methods, func(i, j int) bool { return isAdmin(methods[i]) && !isAdmin(methods[j]) })
	}
	for _, hdr := range []string{"", "translation-off", "intra-proxy"} {
		bypass := hdr
		for _, m := range methods {
			var code codes.Code
			n := 0
			// the streaming method is judged by a stream that stays open for 1.5 s of real time: a stream that ended
			// early with a transport-level status and never reached the local cluster is tried again (twice) before
			// anything is concluded - a stable refusal or a stable loss shows on every attempt
			for attempt := 0; attempt < 3; attempt++ {
				a.local.take()
				code = callMethod(conn, m, hdr)
				time.Sleep(time.Millisecond)
				n = 0
				for _, cr := range a.local.take() {
					if cr.Method == m.FullName {
						n++
					}
				}
				if !(m.ClientStreaming || m.ServerStreaming) || n > 0 || code == codes.PermissionDenied || code == codes.Unimplemented {
					break
				}
				counts["stream_attempts_repeated"]++
			}
			counts["rpcs"]++
			if code == codes.Unavailable || code == codes.DeadlineExceeded {
				return viol, counts, fmt.Sprintf("%s returned %v (transport problem)", m.FullName, code)
			}
			deny := false
			if c.Policy != "none" {
				if isAdmin(m) && len(c.Allowed) > 0 && !allowed[m.Name] {
					deny = true
				}
				if !isAdmin(m) && (m.Name == "RegisterNamespace" || m.Name == "DeprecateNamespace") {
					deny = true
				}
			}
			if hdr == "intra-proxy" && !deny {
				// what an allowed call carrying that marker is turned into is not this property's business; only the
				// refusal of calls outside the allow-list is judged with it
				counts["intra_proxy_marker_allowed_calls_not_judged"]++
				continue
			}
			if hdr == "intra-proxy" {
				counts["intra_proxy_marker_denied_calls_judged"]++
			}
			switch {
			case deny:
				if n > 0 {
					v("denied-method-reached-local-cluster:"+shortSvc(m)+"/"+m.Name, "%s is outside the allow-list %v but the local cluster recorded %d call(s) (status %v, caller header %q, mux %v)", m.FullName, c.Allowed, n, code, bypass, c.Mux)
				} else if code != codes.PermissionDenied {
					v("denied-method-wrong-status:"+shortSvc(m)+"/"+m.Name, "%s is outside the allow-list but was answered with %v instead of PermissionDenied", m.FullName, code)
				} else {
					counts["denied"]++
				}
			default:
				switch {
				case code == codes.PermissionDenied:
					v("allowed-method-denied:"+shortSvc(m)+"/"+m.Name, "%s is allowed by the policy (%s %v) but was refused with PermissionDenied", m.FullName, c.Policy, c.Allowed)
				case code == codes.Unimplemented && n == 0:
					counts["unimplemented_by_proxy"]++
				case n != 1:
					v("allowed-method-not-forwarded-once:"+shortSvc(m)+"/"+m.Name, "%s is allowed but the local cluster recorded %d calls (status %v)", m.FullName, n, code)
				default:
					counts["forwarded"]++
				}
			}
		}
	}
	// the local-facing (outbound) server is not guarded by the policy
	// (only when the proxy reaches the fake remote cluster over TCP: in the mux case the harness end of the
	// session does not serve)
	oc, err := a.dialOutbound()
	if err == nil && !c.Mux {
		defer oc.Close()
		for _, name := range []string{"AddOrUpdateRemoteCluster", "ListClusters", "GetNamespace"} {
			for _, m := range methods {
				if isAdmin(m) && m.Name == name {
					a.remote.take()
					code := callMethod(oc, m, "")
					time.Sleep(time.Millisecond)
					if len(a.remote.take()) != 1 || code != codes.OK {
						v("outbound-server-affected-by-policy:"+m.Name, "admin method %s on the local-facing server: status %v (the inbound policy must not guard it)", m.Name, code)
					} else {
						counts["outbound_forwarded"]++
					}
				}
			}
		}
	}
	return
}

func shortSvc(m gen.Method) string {
	if isAdmin(m) {
		return "Admin"
	}
	return "Workflow"
}

func TestACLWire(t *testing.T) {
	out := rec.Default()
	var admin []string
	for _, m := range gen.Methods(gen.AdminServiceName) {
		admin = append(admin, m.Name)
	}
	rng := rand.New(rand.NewSource(rec.Seed()))
	var cases []aclCase
	lists := [][]string{{}, admin, {"DescribeCluster"}, {"StreamWorkflowReplicationMessages"}, {"DeleteWorkflowExecution"}, {"GetSearchAttributes", "AddOrUpdateRemoteCluster"}}
	nRand := 4
	if rec.Thorough() {
		nRand = 40
		for _, m := range admin {
			lists = append(lists, []string{m})
		}
	}
	for i := 0; i < nRand; i++ {
		var l []string
		for _, m := range admin {
			if rng.Intn(3) == 0 {
				l = append(l, m)
			}
		}
		lists = append(lists, l)
	}
	for i, l := range lists {
		cases = append(cases, aclCase{Policy: "list", Allowed: l, Reversed: i%2 == 1})
		if i < 3 || rec.Thorough() {
			cases = append(cases, aclCase{Policy: "list", Allowed: l, Mux: true, Reversed: i%2 == 0})
		}
	}
	cases = append(cases, aclCase{Policy: "none"}, aclCase{Policy: "none", Mux: true})
	for idx, c := range cases {
		c.Name = fmt.Sprintf("acl/%s/mux=%v/rev=%v/%s", c.Policy, c.Mux, c.Reversed, rec.Hash(fmt.Sprint(c.Allowed)))
		if !rec.Want(idx, c.Name) {
			continue
		}
		out.Begin(c.Name, c)
		viol, counts, inc := runACL(c)
		l := rec.Line{Case: c.Name, Viol: dedupe(viol), Counts: counts, Class: c.Name}
		if inc != "" && len(viol) == 0 {
			l.Verdict, l.Why = rec.Inconclusive, inc
		}
		if idx < 2 {
			l.Sample = map[string]any{"case": c, "result": counts}
		}
		out.End(l)
	}
}

func dedupe(v []rec.Violation) []rec.Violation {
	seen := map[string]bool{}
	var out []rec.Violation
	for _, x := range v {
		if !seen[x.Sig] {
			seen[x.Sig] = true
			out = append(out, x)
		}
	}
	return out
}
