package wire

import (
	"context"
	"fmt"
	"io"
	"math/rand"
	"net"
	"regexp"
	"sort"
	"strings"
	"sync"
	"sync/atomic"
	"testing"
	"time"

	"github.com/hashicorp/yamux"
	"go.temporal.io/server/api/adminservice/v1"
	"google.golang.org/grpc"
	"google.golang.org/grpc/codes"
	"google.golang.org/grpc/status"

	"github.com/temporalio/s2s-proxy/config"
	"github.com/temporalio/s2s-proxy/metrics"
	"github.com/temporalio/s2s-proxy/transport/grpcutil"
	"github.com/temporalio/s2s-proxy/transport/mux"
	"github.com/temporalio/s2s-proxy/transport/mux/session"
	"verifharness/fakes"
	"verifharness/rec"
)

// C11: the real MultiClientConn driven by the real GRPCMuxManager (receiver role) over loopback
// yamux; harness peers connect, serve a tagged gRPC server on their session, and die on script.

type peer struct {
	id     int
	sess   *yamux.Session
	srv    *grpc.Server
	opened time.Time
	closed atomic.Int64 // unix nanos, 0 = alive
}

type tagged struct {
	adminservice.UnimplementedAdminServiceServer
	tag string
}

func (t *tagged) DescribeCluster(ctx context.Context, _ *adminservice.DescribeClusterRequest) (*adminservice.DescribeClusterResponse, error) {
	return &adminservice.DescribeClusterResponse{ClusterName: t.tag}, nil
}

type rpcRec struct {
	call, ret time.Time
	servedBy  string
	code      codes.Code
}

var reDescribe = regexp.MustCompile(`([0-9]+)=\[connFn\]`)

func endpointKeys(m *grpcutil.MultiClientConn) []string {
	s := m.Describe()
	var out []string
	if i := strings.Index(s, "conns={"); i >= 0 {
		for _, mm := range reDescribe.FindAllStringSubmatch(s[i:], -1) {
			out = append(out, mm[1])
		}
	}
	sort.Strings(out)
	return out
}

// muxOpts: variants of a C11 case. Script (when set) replaces the random operations:
//   add | add-sick (a peer that swallows its reply to the second ping it gets: the session's health check
//   fails once while the session itself keeps working) | kill-oldest | kill-newest | kill-healthy |
//   quiet:<ms> (the RPC clients pause: with IdleMS set the gRPC channel goes idle) | wait:<ms>
type muxOpts struct {
	SlowListener bool     `json:"slow_listener,omitempty"`
	IdleMS       int      `json:"idle_ms,omitempty"` // grpc.WithIdleTimeout for the MultiClientConn (0: gRPC's default of 30 min)
	Script       []string `json:"script,omitempty"`
}

// ackDropper sits under a harness peer's yamux session and swallows the reply to the k-th ping
type ackDropper struct {
	net.Conn
	mu   sync.Mutex
	seen int
	drop int
}

func (a *ackDropper) Write(b []byte) (int, error) {
	if len(b) == 12 && b[1] == 2 && b[3]&0x2 != 0 { // yamux header: type ping, flag ACK
		a.mu.Lock()
		a.seen++
		d := a.seen == a.drop
		a.mu.Unlock()
		if d {
			return len(b), nil
		}
	}
	return a.Conn.Write(b)
}

func runMuxRPC(seed int64, nOps, poolSize int, o muxOpts) (viol []rec.Violation, counts map[string]int64, inconclusive string, log []string) {
	slowListener := o.SlowListener
	counts = map[string]int64{}
	var lmu sync.Mutex
	t0 := time.Now()
	logf := func(f string, a ...any) {
		lmu.Lock()
		log = append(log, fmt.Sprintf("%6dms ", time.Since(t0).Milliseconds())+fmt.Sprintf(f, a...))
		lmu.Unlock()
	}
	v := func(sig, f string, a ...any) {
		lmu.Lock()
		viol = append(viol, rec.Violation{Prop: "C11", Sig: sig, What: fmt.Sprintf(f, a...)})
		lmu.Unlock()
	}
	rng := rand.New(rand.NewSource(seed))
	life, cancel := context.WithCancel(context.Background())
	defer cancel()
	probe := fakes.NewProbe(1)
	dialOpts := grpcutil.MakeDialOptions(nil, metrics.GetGRPCClientMetrics("outbound"))
	if o.IdleMS > 0 {
		dialOpts = append(dialOpts, grpc.WithIdleTimeout(time.Duration(o.IdleMS)*time.Millisecond))
	}
	mcc, err := grpcutil.NewMultiClientConn(life, "verif", dialOpts...)
	if err != nil {
		return nil, counts, "NewMultiClientConn: " + err.Error(), nil
	}
	addr := freeAddr()
	cd := config.ClusterDefinition{ConnectionType: config.ConnTypeMuxServer, MuxCount: poolSize, MuxAddressInfo: config.TCPTLSInfo{ConnectionString: addr}}
	var mgr mux.MultiMuxManager
	if !slowListener {
		mgr, err = mux.NewGRPCMuxManager(life, "verif", cd, mcc, grpc.NewServer(), probe)
	} else {
		// the same provider and the same listener, but every list update takes a few milliseconds to apply (as a
		// slow resolver/balancer would): in correct code the update runs under the table lock, so this only holds
		// the lock longer; it widens the window of any update that is applied outside it
		var dmu sync.Mutex
		drng := rand.New(rand.NewSource(seed + 99))
		slow := func(m map[string]session.ManagedMuxSession) {
			dmu.Lock()
			d := time.Duration(1+drng.Intn(15)) * time.Millisecond
			dmu.Unlock()
			time.Sleep(d)
			mcc.OnConnectionListUpdate(m)
		}
		mgr, err = mux.NewCustomMultiMuxManager(life, "verif", func(cb mux.AddNewMux, lt context.Context) (mux.MuxProvider, error) {
			return mux.NewMuxReceiverProvider(lt, "verif", cb, int64(poolSize), cd.MuxAddressInfo, []string{addr, "mux-server", "verif"}, probe)
		}, nil, []mux.OnConnectionListUpdate{slow}, probe)
	}
	if err != nil {
		return nil, counts, "NewGRPCMuxManager: " + err.Error(), nil
	}
	mgr.Start()
	var pmu sync.Mutex
	peers := map[int]*peer{}
	nextID := 0
	sickNext := false
	connect := func() *peer {
		raw, err := net.DialTimeout("tcp", addr, 2*time.Second)
		if err != nil {
			return nil
		}
		if sickNext {
			sickNext = false
			raw = &ackDropper{Conn: raw, drop: 2} // 1st ping: the provider's liveness check; 2nd: the session's first health check
		}
		yc := yamux.DefaultConfig()
		yc.LogOutput = io.Discard
		sess, err := yamux.Client(raw, yc)
		if err != nil {
			return nil
		}
		pmu.Lock()
		p := &peer{id: nextID, sess: sess, opened: time.Now()}
		nextID++
		peers[p.id] = p
		pmu.Unlock()
		p.srv = grpc.NewServer()
		adminservice.RegisterAdminServiceServer(p.srv, &tagged{tag: fmt.Sprintf("peer-%d", p.id)})
		go p.srv.Serve(sess)
		go func() { <-sess.CloseChan(); p.closed.CompareAndSwap(0, time.Now().UnixNano()) }()
		logf("peer-%d connected", p.id)
		return p
	}
	kill := func(p *peer) {
		p.closed.CompareAndSwap(0, time.Now().UnixNano())
		p.sess.Close()
		logf("peer-%d closed", p.id)
	}
	live := func() []*peer {
		pmu.Lock()
		defer pmu.Unlock()
		var out []*peer
		for _, p := range peers {
			if p.closed.Load() == 0 {
				out = append(out, p)
			}
		}
		return out
	}
	// RPC clients
	var rmu sync.Mutex
	var rpcs []rpcRec
	stop := make(chan struct{})
	var paused atomic.Bool
	var wg sync.WaitGroup
	client := adminservice.NewAdminServiceClient(mcc)
	for g := 0; g < 3; g++ {
		wg.Add(1)
		go func() {
			defer wg.Done()
			for {
				select {
				case <-stop:
					return
				default:
				}
				if paused.Load() {
					time.Sleep(5 * time.Millisecond)
					continue
				}
				ctx, c := context.WithTimeout(context.Background(), 800*time.Millisecond)
				r := rpcRec{call: time.Now()}
				resp, err := client.DescribeCluster(ctx, &adminservice.DescribeClusterRequest{})
				c()
				r.ret, r.code = time.Now(), status.Code(err)
				if err == nil {
					r.servedBy = resp.ClusterName
				}
				rmu.Lock()
				rpcs = append(rpcs, r)
				rmu.Unlock()
				time.Sleep(2 * time.Millisecond)
			}
		}()
	}
	// quiescent-point oracle: registered set == endpoint set == live peer count
	settle := func(what string) bool {
		deadline := time.Now().Add(8 * time.Second)
		for {
			// (the live set is read on every poll: the "replace" operation kills the old peer from another
			// goroutine, which may not have run yet when the polling starts - a count taken once up front
			// produced a false "registered-set-wrong" in the thorough tier)
			want := len(live())
			reg := mgr.GetMuxConnections()
			var regKeys []string
			for k := range reg {
				regKeys = append(regKeys, k)
			}
			sort.Strings(regKeys)
			ep := endpointKeys(mcc)
			if len(regKeys) == want && strings.Join(regKeys, ",") == strings.Join(ep, ",") && mcc.CanMakeCalls() == (want > 0) {
				counts["quiescent_points_checked"]++
				return true
			}
			if time.Now().After(deadline) {
				// state-based: the live peer set has been stable for 8 s
				switch {
				case len(regKeys) != want:
					v("registered-set-wrong", "after %s: %d peer sessions are alive but the manager has %v registered (stable for 8 s)", what, want, regKeys)
				case strings.Join(regKeys, ",") != strings.Join(ep, ","):
					v("endpoint-set-differs", "after %s: registered mux sessions %v but the client connection may dial endpoints %v", what, regKeys, ep)
				default:
					v("can-make-calls-wrong", "after %s: CanMakeCalls()=%v with %d registered sessions", what, mcc.CanMakeCalls(), want)
				}
				return false
			}
			time.Sleep(5 * time.Millisecond)
		}
	}
	// availability probe at a quiescent point: with >= 1 stable session a fresh RPC succeeds; with none it is Unavailable
	probeRPC := func(what string) {
		n := len(live())
		var last error
		ok := false
		start := time.Now()
		for time.Since(start) < 6*time.Second {
			ctx, c := context.WithTimeout(context.Background(), time.Second)
			_, last = client.DescribeCluster(ctx, &adminservice.DescribeClusterRequest{})
			c()
			if (last == nil) == (n > 0) {
				ok = true
				break
			}
			if len(live()) != n {
				return // the script moved on
			}
			time.Sleep(20 * time.Millisecond)
		}
		if !ok {
			if n > 0 {
				v("unavailable-with-live-session", "after %s: %d sessions are registered and alive but RPCs keep failing for 6 s: %v", what, n, last)
			} else {
				v("success-with-no-session", "after %s: no session is alive but an RPC succeeded", what)
			}
		} else {
			counts["availability_probes_ok"]++
			if n == 0 && status.Code(last) != codes.Unavailable && status.Code(last) != codes.DeadlineExceeded {
				v("wrong-status-with-no-session", "with no session RPCs fail with %v, expected Unavailable", status.Code(last))
			}
		}
	}
	byAge := func() []*peer {
		lv := live()
		sort.Slice(lv, func(i, j int) bool { return lv[i].id < lv[j].id })
		return lv
	}
	sick := map[int]bool{}
	for _, step := range o.Script {
		what, check := "", true
		switch {
		case step == "add" || step == "add-sick":
			sickNext = step == "add-sick"
			if p := connect(); p != nil {
				what = fmt.Sprintf("%s peer-%d", step, p.id)
				sick[p.id] = step == "add-sick"
			}
		case step == "kill-oldest" || step == "kill-newest":
			if lv := byAge(); len(lv) > 0 {
				p := lv[0]
				if step == "kill-newest" {
					p = lv[len(lv)-1]
				}
				kill(p)
				what = fmt.Sprintf("%s peer-%d", step, p.id)
			}
		case step == "kill-healthy":
			for _, p := range byAge() {
				if !sick[p.id] {
					kill(p)
					what += fmt.Sprintf("kill peer-%d ", p.id)
				}
			}
		case strings.HasPrefix(step, "quiet:") || strings.HasPrefix(step, "wait:"):
			var ms int
			fmt.Sscanf(step[strings.Index(step, ":")+1:], "%d", &ms)
			if strings.HasPrefix(step, "quiet:") {
				paused.Store(true)
				time.Sleep(time.Duration(ms) * time.Millisecond)
				paused.Store(false)
				counts["quiet_periods"]++
				what = step
			} else {
				time.Sleep(time.Duration(ms) * time.Millisecond)
				check = false
				for _, ms := range mgr.GetMuxConnections() {
					if st := ms.State(); st != nil && st.State == session.Error {
						counts["registered_sessions_seen_in_error_state"]++
					}
				}
			}
		case step == "quiet-begin":
			paused.Store(true)
			check = false
		case step == "quiet-end":
			paused.Store(false)
			counts["quiet_periods"]++
			what = "quiet period with updates inside"
		}
		logf("step %s", step)
		if what == "" || !check || paused.Load() {
			continue
		}
		counts["updates"]++
		if !settle(what) {
			break
		}
		probeRPC(what)
	}
	for op := 0; op < nOps && o.Script == nil; op++ {
		lv := live()
		what := ""
		switch r := rng.Intn(10); {
		case r < 4 && len(lv) < poolSize:
			if p := connect(); p != nil {
				what = fmt.Sprintf("add peer-%d", p.id)
			}
		case r < 6 && len(lv) > 0:
			p := lv[rng.Intn(len(lv))]
			kill(p)
			what = fmt.Sprintf("kill peer-%d", p.id)
		case r < 9 && len(lv) < poolSize: // flap: a session that dies right after it was established
			before := len(mgr.GetMuxConnections())
			if p := connect(); p != nil {
				if rng.Intn(3) == 0 {
					time.Sleep(time.Duration(rng.Intn(25)) * time.Millisecond)
				} else {
					// die at the moment the session shows up in the manager's table (reading the table takes the
					// table lock, so in correct code the update for this session has been applied by then)
					for i := 0; i < 20000 && len(mgr.GetMuxConnections()) <= before; i++ {
						time.Sleep(100 * time.Microsecond)
					}
				}
				kill(p)
				what = fmt.Sprintf("flap peer-%d", p.id)
			}
		case r < 10 && rng.Intn(2) == 0 && len(lv) > 0: // drop to zero
			for _, p := range lv {
				kill(p)
			}
			what = "kill all"
		default:
			if len(lv) > 0 && len(lv) < poolSize { // replace: kill the oldest and add a new one at the same time
				sort.Slice(lv, func(i, j int) bool { return lv[i].id < lv[j].id })
				go kill(lv[0])
				if p := connect(); p != nil {
					what = fmt.Sprintf("replace peer-%d by peer-%d", lv[0].id, p.id)
				}
			}
		}
		if what == "" {
			continue
		}
		counts["updates"]++
		if !settle(what) {
			break
		}
		probeRPC(what)
	}
	close(stop)
	wg.Wait()
	// every successful RPC was served by a session that was alive during the call
	rmu.Lock()
	for _, r := range rpcs {
		counts["rpcs"]++
		if r.code != codes.OK {
			counts["rpcs_failed"]++
			continue
		}
		counts["rpcs_ok"]++
		var id int
		fmt.Sscanf(r.servedBy, "peer-%d", &id)
		pmu.Lock()
		p := peers[id]
		pmu.Unlock()
		if p == nil {
			v("served-by-unknown", "RPC served by %q which is not a harness peer", r.servedBy)
			continue
		}
		if c := p.closed.Load(); p.opened.After(r.ret) || c != 0 && time.Unix(0, c).Before(r.call.Add(-50*time.Millisecond)) {
			v("served-by-dead-session", "RPC [%v, %v] was served by %s whose session lived [%v, %v]", r.call.Sub(t0), r.ret.Sub(t0), r.servedBy, p.opened.Sub(t0), time.Unix(0, c).Sub(t0))
		}
	}
	rmu.Unlock()
	for _, p := range live() {
		kill(p)
	}
	return
}

// scripted cases (by case index; the other indices are random operation sequences)
var scripted = map[int]muxOpts{
	// the channel goes idle between updates and calls
	3: {IdleMS: 300, Script: []string{"add", "quiet:1500", "add", "quiet:1200", "kill-oldest", "quiet:1500", "kill-newest", "add", "quiet:1000"}},
	// the session list changes while the channel is idle
	7: {IdleMS: 300, Script: []string{"add", "quiet-begin", "wait:1200", "add", "wait:300", "kill-oldest", "wait:900", "quiet-end", "quiet-begin", "wait:1000", "kill-newest", "wait:200", "add", "wait:900", "quiet-end"}},
	// a session whose health check failed once (it keeps working) is registered when the list changes
	11: {Script: []string{"add", "add-sick", "wait:11500", "add", "kill-oldest", "kill-healthy"}},
	15: {SlowListener: true, Script: []string{"add-sick", "add", "wait:11500", "kill-newest", "add", "kill-healthy"}},
}

func TestMuxRPC(t *testing.T) {
	out := rec.Default()
	n := 24
	if rec.Thorough() {
		n = 300
	}
	for idx := 0; idx < n; idx++ {
		name := fmt.Sprintf("muxrpc/%d", idx)
		if !rec.Want(idx, name) {
			continue
		}
		pool := 1 + idx%3
		o := muxOpts{SlowListener: idx%2 == 1}
		if idx%4 == 2 {
			o.IdleMS = 300 // (random operations on a channel that goes idle whenever the clients are quiet for 300 ms)
		}
		if sc, ok := scripted[idx]; ok {
			o, pool = sc, 3
		}
		out.Begin(name, map[string]any{"ops": 14, "pool": pool, "options": o})
		viol, counts, inc, log := runMuxRPC(rec.Mix(rec.Seed(), name), 14, pool, o)
		l := rec.Line{Case: name, Viol: dedupe(viol), Counts: counts, Class: name}
		if inc != "" && len(viol) == 0 {
			l.Verdict, l.Why = rec.Inconclusive, inc
		}
		for i := range l.Viol {
			l.Viol[i].Witness = map[string]any{"log": log}
		}
		if idx < 2 {
			l.Sample = map[string]any{"pool": pool, "log": log, "result": counts}
		}
		out.End(l)
	}
}
