package wire

import (
	"context"
	"fmt"
	"io"
	"net"
	"strconv"
	"sync"
	"testing"
	"time"

	"go.temporal.io/server/api/adminservice/v1"
	persistencespb "go.temporal.io/server/api/persistence/v1"
	replicationv1 "go.temporal.io/server/api/replication/v1"
	"go.temporal.io/server/client/history"
	"google.golang.org/grpc"
	"google.golang.org/grpc/credentials/insecure"
	"google.golang.org/grpc/metadata"

	"github.com/temporalio/s2s-proxy/config"
	"github.com/temporalio/s2s-proxy/proxy"
	"verifharness/fakes"
	"verifharness/rec"
	"verifharness/routesim"
)

// Routing mode through the ASSEMBLED proxy over real gRPC: fake Temporal clusters with different
// shard counts; every shard initiates its stream to the proxy and serves the reverse stream. The
// routesim recorder and oracles (C01/C02/C03) run over what the peers observe. This is what shows
// which routing parameters each direction was given, and it cross-checks the in-memory stream model
// of the routesim engine against real gRPC.

type wireCluster struct {
	adminservice.UnimplementedAdminServiceServer
	id     int
	n      int
	recd   *routesim.Recorder
	script map[int][]routesim.Batch
	final  map[int]int64
	srv    *grpc.Server
	lis    net.Listener
	mu     sync.Mutex
	inc    map[int]int
	nwf    int
	hold   chan struct{} // when set, sources send nothing until it is closed
}

func (c *wireCluster) name(i int) string { return fmt.Sprintf("%c:%d", "?LR"[c.id], i) }

func (c *wireCluster) DescribeCluster(ctx context.Context, _ *adminservice.DescribeClusterRequest) (*adminservice.DescribeClusterResponse, error) {
	return &adminservice.DescribeClusterResponse{ClusterName: c.name(0), HistoryShardCount: int32(c.n)}, nil
}

// source role: the proxy's receiver opens this stream
func (c *wireCluster) StreamWorkflowReplicationMessages(st adminservice.AdminService_StreamWorkflowReplicationMessagesServer) error {
	md, _ := metadata.FromIncomingContext(st.Context())
	shard := 0
	if v := md.Get(history.MetadataKeyServerShardID); len(v) > 0 {
		shard, _ = strconv.Atoi(v[0])
	}
	if shard < 1 || shard > c.n {
		return fmt.Errorf("no such shard %d", shard)
	}
	c.mu.Lock()
	c.inc[shard]++
	stream := fmt.Sprintf("%s#%d", c.name(shard), c.inc[shard])
	c.mu.Unlock()
	src := c.name(shard)
	c.recd.SrcOpen(stream)
	go func() {
		for {
			m, err := st.Recv()
			if err != nil {
				return
			}
			c.recd.SrcAck(stream, m.GetSyncReplicationState().GetInclusiveLowWatermark())
		}
	}()
	send := func(b routesim.Batch) error {
		msgs := &replicationv1.WorkflowReplicationMessages{ExclusiveHighWatermark: b.High}
		for _, id := range b.IDs {
			mark := fmt.Sprintf("%s %d", src, id)
			t := &replicationv1.ReplicationTask{SourceTaskId: id, RawTaskInfo: &persistencespb.ReplicationTaskInfo{
				NamespaceId: fmt.Sprintf("ns-%d", id%3), WorkflowId: fmt.Sprintf("wf-%d", (id*7+int64(shard))%int64(c.nwf)), RunId: mark, TaskId: id, Version: 5}}
			c.recd.RememberOriginal(mark, t)
			msgs.ReplicationTasks = append(msgs.ReplicationTasks, t)
		}
		c.recd.SrcSend(stream, msgs)
		return st.Send(&adminservice.StreamWorkflowReplicationMessagesResponse{Attributes: &adminservice.StreamWorkflowReplicationMessagesResponse_Messages{Messages: msgs}})
	}
	if c.hold != nil {
		select {
		case <-c.hold:
		case <-st.Context().Done():
			return nil
		}
	}
	for _, b := range c.script[shard] {
		select {
		case <-time.After(time.Duration(b.WaitMS) * time.Millisecond):
		case <-st.Context().Done():
			return nil
		}
		if err := send(b); err != nil {
			return nil
		}
	}
	for {
		select {
		case <-time.After(300 * time.Millisecond):
		case <-st.Context().Done():
			return nil
		}
		if err := send(routesim.Batch{High: c.final[shard]}); err != nil {
			return nil
		}
	}
}

// target role: this cluster's shard initiates its stream through the proxy
func (c *wireCluster) runTarget(ctx context.Context, proxyAddr string, shard int) {
	c.runTargetInc(ctx, proxyAddr, shard, 1)
}

// runTargetInc: the inc-th incarnation of this shard's target stream (a stream that moved to another instance)
func (c *wireCluster) runTargetInc(ctx context.Context, proxyAddr string, shard, inc int) {
	conn, err := grpc.NewClient(proxyAddr, grpc.WithTransportCredentials(insecure.NewCredentials()))
	if err != nil {
		return
	}
	defer conn.Close()
	peer := 3 - c.id
	sctx := metadata.NewOutgoingContext(ctx, metadata.Pairs(history.MetadataKeyClientClusterID, fmt.Sprint(c.id), history.MetadataKeyClientShardID, fmt.Sprint(shard),
		history.MetadataKeyServerClusterID, fmt.Sprint(peer), history.MetadataKeyServerShardID, fmt.Sprint(shard)))
	st, err := adminservice.NewAdminServiceClient(conn).StreamWorkflowReplicationMessages(sctx)
	if err != nil {
		return
	}
	stream := fmt.Sprintf("%s#%d", c.name(shard), inc)
	c.recd.Mark("TGT_OPEN", stream)
	var mu sync.Mutex
	high, got := int64(-1), false
	go func() {
		tk := time.NewTicker(200 * time.Millisecond)
		defer tk.Stop()
		for {
			select {
			case <-tk.C:
				mu.Lock()
				w, ok := high, got
				mu.Unlock()
				if !ok {
					continue
				}
				c.recd.TgtAck(stream, w)
				if err := st.Send(&adminservice.StreamWorkflowReplicationMessagesRequest{Attributes: &adminservice.StreamWorkflowReplicationMessagesRequest_SyncReplicationState{
					SyncReplicationState: &replicationv1.SyncReplicationState{InclusiveLowWatermark: w}}}); err != nil {
					return
				}
			case <-ctx.Done():
				return
			}
		}
	}()
	for {
		m, err := st.Recv()
		if err != nil {
			if err != io.EOF || inc > 1 || ctx.Err() != nil {
				c.recd.Mark("TGT_END", stream)
			}
			return
		}
		c.recd.TgtRecv(stream, c.n, m.GetMessages())
		mu.Lock()
		got = true
		if h := m.GetMessages().GetExclusiveHighWatermark(); h > high {
			high = h // tasks are processed at once: everything below the watermark is done
		}
		mu.Unlock()
	}
}

func routingWire(nL, nR int, seed int64) (viol []rec.Violation, counts map[string]int64, inconclusive string) {
	counts = map[string]int64{}
	sc := &routesim.Scenario{Class: "fair", Seed: seed, NL: nL, NR: nR, PeriodMS: 300, NWf: 11, Scripts: map[string][]routesim.Batch{}, Final: map[string]int64{}, Targets: map[string]routesim.TargetBeh{}, Window: 4}
	recd := routesim.NewRecorder(sc)
	mk := func(id, n int) *wireCluster {
		lis, _ := net.Listen("tcp", "127.0.0.1:0")
		c := &wireCluster{id: id, n: n, recd: recd, script: map[int][]routesim.Batch{}, final: map[int]int64{}, lis: lis, inc: map[int]int{}, nwf: 11}
		for i := 1; i <= n; i++ {
			idb := int64(100 * i)
			for k := 0; k < 12; k++ {
				if k%4 == 3 {
					c.script[i] = append(c.script[i], routesim.Batch{IDs: []int64{idb, idb + 1, idb + 2}, High: idb + 3, WaitMS: 20})
					idb += 3
				} else {
					c.script[i] = append(c.script[i], routesim.Batch{IDs: []int64{idb}, High: idb + 1, WaitMS: 15})
					idb++
				}
			}
			c.final[i] = idb
			sc.Scripts[c.name(i)], sc.Final[c.name(i)] = c.script[i], idb
		}
		c.srv = grpc.NewServer()
		adminservice.RegisterAdminServiceServer(c.srv, c)
		go c.srv.Serve(lis)
		return c
	}
	L, R := mk(1, nL), mk(2, nR)
	defer L.srv.Stop()
	defer R.srv.Stop()
	inAddr, outAddr := freeAddr(), freeAddr()
	ctx, cancel := context.WithCancel(context.Background())
	defer cancel()
	cc, err := proxy.NewClusterConnection(ctx, config.ClusterConnConfig{Name: "verif-routing",
		Local:            config.ClusterDefinition{ConnectionType: config.ConnTypeTCP, TcpClient: config.TCPTLSInfo{ConnectionString: L.lis.Addr().String()}, TcpServer: config.TCPTLSInfo{ConnectionString: outAddr}},
		Remote:           config.ClusterDefinition{ConnectionType: config.ConnTypeTCP, TcpClient: config.TCPTLSInfo{ConnectionString: R.lis.Addr().String()}, TcpServer: config.TCPTLSInfo{ConnectionString: inAddr}},
		ShardCountConfig: config.ShardCountConfig{Mode: config.ShardCountRouting, LocalShardCount: int32(nL), RemoteShardCount: int32(nR)},
	}, fakes.NewProbe(seed))
	if err != nil {
		return nil, counts, "NewClusterConnection: " + err.Error()
	}
	cc.Start()
	// what each cluster is told about its peer's shard count (routing mode reports the caller's own count)
	for _, d := range []struct {
		addr string
		want int
		who  string
	}{{inAddr, nR, "remote cluster through the inbound server"}, {outAddr, nL, "local cluster through the outbound server"}} {
		conn, err := grpc.NewClient(d.addr, grpc.WithTransportCredentials(insecure.NewCredentials()))
		if err != nil {
			return nil, counts, err.Error()
		}
		cctx, ccancel := context.WithTimeout(ctx, 10*time.Second)
		resp, err := adminservice.NewAdminServiceClient(conn).DescribeCluster(cctx, &adminservice.DescribeClusterRequest{})
		ccancel()
		conn.Close()
		if err != nil {
			return nil, counts, "DescribeCluster: " + err.Error()
		}
		counts["describe_cluster_calls"]++
		if int(resp.HistoryShardCount) != d.want {
			viol = append(viol, rec.Violation{Prop: "C02", Sig: "routing-wiring:peer-shard-count", What: fmt.Sprintf("nL=%d nR=%d: the %s is told the peer has %d shards; in routing mode it must be told its own count %d so that it opens exactly one stream per own shard", nL, nR, d.who, resp.HistoryShardCount, d.want)})
		}
	}
	for i := 1; i <= nR; i++ {
		go R.runTarget(ctx, inAddr, i)
	}
	for i := 1; i <= nL; i++ {
		go L.runTarget(ctx, outAddr, i)
	}
	// run until every source got its final ack or 25 s passed
	deadline := time.Now().Add(25 * time.Second)
	for time.Now().Before(deadline) {
		time.Sleep(100 * time.Millisecond)
		if recd.AllFinalAcked() {
			break
		}
	}
	time.Sleep(300 * time.Millisecond)
	vs, cs, done := recd.Summary()
	for k, v := range cs {
		counts[k] = v
	}
	if !done {
		inconclusive = "not every source received its final acknowledgement within 25 s of real time"
	}
	for _, x := range vs {
		if x.Prop == "C01" || x.Prop == "C02" || x.Prop == "C03" {
			x.Sig = "wire:" + x.Sig
			viol = append(viol, x)
		}
	}
	cancel()
	time.Sleep(200 * time.Millisecond)
	return
}

func TestRoutingWire(t *testing.T) {
	out := rec.Default()
	pairs := [][2]int{{1, 1}, {2, 3}, {3, 2}, {1, 4}, {4, 1}, {3, 5}, {4, 4}, {2, 6}}
	if rec.Thorough() {
		for a := 1; a <= 6; a++ {
			for b := 1; b <= 6; b++ {
				pairs = append(pairs, [2]int{a, b})
			}
		}
	}
	for idx, p := range pairs {
		name := fmt.Sprintf("routing-wire/%dx%d/%d", p[0], p[1], idx)
		if !rec.Want(idx, name) {
			continue
		}
		out.Begin(name, map[string]any{"nL": p[0], "nR": p[1]})
		viol, counts, inc := routingWire(p[0], p[1], rec.Mix(rec.Seed(), name))
		l := rec.Line{Case: name, Viol: dedupe(viol), Counts: counts, Class: name}
		if inc != "" && len(viol) == 0 {
			l.Verdict, l.Why = rec.Inconclusive, inc
		}
		out.End(l)
	}
}
