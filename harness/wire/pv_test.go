package wire

import (
	commonpb "go.temporal.io/api/common/v1"
	"google.golang.org/protobuf/reflect/protoreflect"
)

type protoValue = protoreflect.Value

func protoValueOf(b *commonpb.DataBlob) protoreflect.Value {
	return protoreflect.ValueOfMessage(b.ProtoReflect())
}
