package wire

import (
	commonpb "go.temporal.io/api/common/v1"
	"google.golang.org/protobuf/reflect/protoreflect"
	"net"
)

type protoValue = protoreflect.Value

func protoValueOf(b *commonpb.DataBlob) protoreflect.Value {
	return protoreflect.ValueOfMessage(b.ProtoReflect())
}

func netListen() (net.Listener, error) { return net.Listen("tcp", "127.0.0.1:0") }
