// Package wire: assembled proxies (proxy.NewClusterConnection) on loopback between generic fake
// clusters that record every call. Real sockets, real interceptor chain, real codec.
package wire

import (
	"context"
	"fmt"
	"io"
	"net"
	"os"
	"strings"
	"sync"
	"time"

	"github.com/hashicorp/yamux"
	"google.golang.org/grpc"
	"google.golang.org/grpc/codes"
	"google.golang.org/grpc/credentials/insecure"
	"google.golang.org/grpc/metadata"
	"google.golang.org/grpc/status"
	"google.golang.org/protobuf/proto"

	"github.com/temporalio/s2s-proxy/config"
	"github.com/temporalio/s2s-proxy/proxy"
	"github.com/temporalio/s2s-proxy/transport/mux"
	"verifharness/fakes"
	"verifharness/gen"
)

type callRec struct {
	Method string
	MD     metadata.MD
	Req    proto.Message
	Stream bool
}

// fakeCluster: a gRPC server that accepts every method of both services, records it and answers
// with a default (or scripted) response.
type fakeCluster struct {
	name    string
	srv     *grpc.Server
	lis     net.Listener
	mu      sync.Mutex
	calls   []callRec
	methods map[string]gen.Method
	respond func(m gen.Method, req proto.Message) proto.Message
}

func newFakeCluster(name string) *fakeCluster {
	lis, err := net.Listen("tcp", "127.0.0.1:0")
	if err != nil {
		panic(err)
	}
	f := &fakeCluster{name: name, lis: lis, methods: map[string]gen.Method{}}
	for _, m := range gen.AllMethods() {
		f.methods[m.FullName] = m
	}
	f.srv = grpc.NewServer(grpc.UnknownServiceHandler(f.handle))
	go f.srv.Serve(lis)
	return f
}

func (f *fakeCluster) addr() string { return f.lis.Addr().String() }
func (f *fakeCluster) stop()        { f.srv.Stop() }

func (f *fakeCluster) handle(_ any, stream grpc.ServerStream) error {
	full, _ := grpc.MethodFromServerStream(stream)
	m, ok := f.methods[full]
	if !ok {
		return status.Errorf(codes.Unimplemented, "fake: unknown method %s", full)
	}
	md, _ := metadata.FromIncomingContext(stream.Context())
	if m.ClientStreaming || m.ServerStreaming {
		f.mu.Lock()
		f.calls = append(f.calls, callRec{Method: full, MD: md.Copy(), Stream: true})
		f.mu.Unlock()
		for {
			in := gen.New(m.In)
			if err := stream.RecvMsg(in); err != nil {
				return nil
			}
		}
	}
	in := gen.New(m.In)
	if err := stream.RecvMsg(in); err != nil {
		return err
	}
	f.mu.Lock()
	f.calls = append(f.calls, callRec{Method: full, MD: md.Copy(), Req: proto.Clone(in)})
	respond := f.respond
	f.mu.Unlock()
	var out proto.Message
	if respond != nil {
		out = respond(m, in)
	}
	if out == nil {
		out = gen.New(m.Out)
	}
	return stream.SendMsg(out)
}

func (f *fakeCluster) take() []callRec {
	f.mu.Lock()
	defer f.mu.Unlock()
	c := f.calls
	f.calls = nil
	return c
}

// freeAddr hands out loopback ports from a block of 100 that belongs to this process (below the
// kernel's ephemeral range, block chosen by pid): an address handed out now may be bound seconds later
// (an instance that starts late), and neither a parallel child process of the driver nor an outgoing
// connection may take it in between - which happened with ports obtained from ":0".
var (
	portMu   sync.Mutex
	portNext int
)

func freePort(udpToo bool) int {
	portMu.Lock()
	defer portMu.Unlock()
	base := 12000 + (os.Getpid()*37%180)*100
	for tries := 0; tries < 400; tries++ {
		port := base + portNext%100
		portNext++
		l, err := net.Listen("tcp", fmt.Sprintf("127.0.0.1:%d", port))
		if err != nil {
			continue
		}
		if udpToo {
			u, err := net.ListenPacket("udp", fmt.Sprintf("127.0.0.1:%d", port))
			if err != nil {
				l.Close()
				continue
			}
			u.Close()
		}
		l.Close()
		return port
	}
	panic("no free loopback port in this process's block")
}

func freeAddr() string { return fmt.Sprintf("127.0.0.1:%d", freePort(false)) }

// assembled: one real ClusterConnection between a fake local and a fake remote cluster.
type assembled struct {
	local, remote *fakeCluster
	cc            *proxy.ClusterConnection
	cancel        context.CancelFunc
	inboundAddr   string // where the remote cluster reaches the proxy (TCP address or mux listener)
	outboundAddr  string // where the local cluster reaches the proxy
	inboundMux    bool
	muxSession    *yamux.Session
	probe         *fakes.Probe
}

func (a *assembled) close() {
	if a.muxSession != nil {
		a.muxSession.Close()
	}
	a.cancel()
	a.local.stop()
	a.remote.stop()
}

func init() { mux.MuxManagerStartDelay = 20 * time.Millisecond }

// assemble builds and starts a proxy. mutate may adjust the configuration before start.
func assemble(inboundMux bool, mutate func(*config.ClusterConnConfig)) (*assembled, error) {
	a := &assembled{local: newFakeCluster("local"), remote: newFakeCluster("remote"), inboundMux: inboundMux, probe: fakes.NewProbe(1)}
	a.inboundAddr, a.outboundAddr = freeAddr(), freeAddr()
	cfg := config.ClusterConnConfig{
		Name: "verif",
		Local: config.ClusterDefinition{ConnectionType: config.ConnTypeTCP,
			TcpClient: config.TCPTLSInfo{ConnectionString: a.local.addr()}, TcpServer: config.TCPTLSInfo{ConnectionString: a.outboundAddr}},
		Remote: config.ClusterDefinition{ConnectionType: config.ConnTypeTCP,
			TcpClient: config.TCPTLSInfo{ConnectionString: a.remote.addr()}, TcpServer: config.TCPTLSInfo{ConnectionString: a.inboundAddr}},
	}
	if inboundMux {
		cfg.Remote = config.ClusterDefinition{ConnectionType: config.ConnTypeMuxServer, MuxCount: 1, MuxAddressInfo: config.TCPTLSInfo{ConnectionString: a.inboundAddr}}
	}
	if mutate != nil {
		mutate(&cfg)
	}
	ctx, cancel := context.WithCancel(context.Background())
	a.cancel = cancel
	cc, err := proxy.NewClusterConnection(ctx, cfg, a.probe)
	if err != nil {
		cancel()
		a.local.stop()
		a.remote.stop()
		return nil, err
	}
	a.cc = cc
	cc.Start()
	return a, nil
}

// dialInbound returns a gRPC client connection to the remote-facing server.
func (a *assembled) dialInbound() (*grpc.ClientConn, error) {
	if !a.inboundMux {
		return grpc.NewClient(a.inboundAddr, grpc.WithTransportCredentials(insecure.NewCredentials()))
	}
	var raw net.Conn
	var err error
	for i := 0; i < 100; i++ {
		raw, err = net.DialTimeout("tcp", a.inboundAddr, time.Second)
		if err == nil {
			break
		}
		time.Sleep(20 * time.Millisecond)
	}
	if err != nil {
		return nil, err
	}
	yc := yamux.DefaultConfig()
	yc.LogOutput = io.Discard
	sess, err := yamux.Client(raw, yc)
	if err != nil {
		return nil, err
	}
	a.muxSession = sess
	// the proxy also opens streams towards us (its outbound client); accept and drop them
	go func() {
		for {
			st, err := sess.Accept()
			if err != nil {
				return
			}
			st.Close()
		}
	}()
	return grpc.NewClient("passthrough:///mux", grpc.WithTransportCredentials(insecure.NewCredentials()),
		grpc.WithContextDialer(func(ctx context.Context, _ string) (net.Conn, error) { return sess.Open() }))
}

func (a *assembled) dialOutbound() (*grpc.ClientConn, error) {
	return grpc.NewClient(a.outboundAddr, grpc.WithTransportCredentials(insecure.NewCredentials()))
}

func shortName(full string) string { return full[strings.LastIndex(full, "/")+1:] }

func isAdmin(m gen.Method) bool { return m.Service == gen.AdminServiceName }

var _ = fmt.Sprint
