package wire

// C10, establisher role over real TCP: the real GRPCMuxManager configured as mux client dials a
// harness listener that follows a script - listening with a working yamux server, refusing (port
// closed), accepting and closing at once - and that kills sessions from its side. The harness sees
// every connection the manager makes (accept) and every end (EOF/reset on that connection); the
// oracle needs nothing else:
//   - never more than MuxCount connections open at once;
//   - while the peer listens and works, the pool is back at MuxCount within a bound after any loss;
//   - after the lifetime is cancelled every connection is closed, the manager reports closed
//     (CloseChan) within the establisher's own back-off bound, and nothing connects afterwards - also
//     not when a peer that was unreachable during the shutdown comes back.
// Real time; a bound that is missed while the machine is starved is reported as inconclusive only when
// nothing else proves a violation (a connection arriving after shutdown is proof on its own).

import (
	"context"
	"fmt"
	"io"
	"net"
	"strings"
	"sync"
	"testing"
	"time"

	"github.com/hashicorp/yamux"
	"google.golang.org/grpc"

	"github.com/temporalio/s2s-proxy/config"
	"github.com/temporalio/s2s-proxy/transport/mux"
	"github.com/temporalio/s2s-proxy/transport/mux/session"
	"verifharness/fakes"
	"verifharness/rec"
)

type estCase struct {
	N      int      `json:"n"`      // MuxCount
	Phases []string `json:"phases"` // listen | refuse | accept-close | kill-one | kill-all | wait-full | cancel | sleep:<ms>
}

type estConn struct {
	c        net.Conn
	sess     *yamux.Session
	at       time.Time
	ended    chan struct{}
	endedAt  time.Time
}

type estPeer struct {
	mu       sync.Mutex
	addr     string
	lis      net.Listener
	mode     string // listen | accept-close
	conns    []*estConn
	open     int
	maxOpen  int
	accepts  int
	lastAcc  time.Time
}

func (p *estPeer) listen(mode string) error {
	p.mu.Lock()
	defer p.mu.Unlock()
	p.mode = mode
	if p.lis != nil {
		return nil
	}
	l, err := net.Listen("tcp", p.addr)
	if err != nil {
		return err
	}
	p.lis = l
	go func() {
		for {
			c, err := l.Accept()
			if err != nil {
				return
			}
			p.mu.Lock()
			mode := p.mode
			p.accepts++
			p.lastAcc = time.Now()
			ec := &estConn{c: c, at: time.Now(), ended: make(chan struct{})}
			p.conns = append(p.conns, ec)
			p.open++
			if p.open > p.maxOpen {
				p.maxOpen = p.open
			}
			p.mu.Unlock()
			end := func() {
				p.mu.Lock()
				p.open--
				ec.endedAt = time.Now()
				p.mu.Unlock()
				close(ec.ended)
			}
			if mode == "accept-close" {
				_ = c.Close()
				end()
				continue
			}
			yc := yamux.DefaultConfig()
			yc.LogOutput = io.Discard
			s, err := yamux.Server(c, yc)
			if err != nil {
				_ = c.Close()
				end()
				continue
			}
			ec.sess = s
			go func() {
				<-s.CloseChan() // the session ends when either side closes the connection
				_ = c.Close()
				end()
			}()
			go func() {
				for {
					st, err := s.Accept()
					if err != nil {
						return
					}
					_ = st.Close()
				}
			}()
		}
	}()
	return nil
}

func (p *estPeer) refuse() {
	p.mu.Lock()
	l := p.lis
	p.lis = nil
	p.mu.Unlock()
	if l != nil {
		_ = l.Close()
	}
}

func (p *estPeer) live() []*estConn {
	p.mu.Lock()
	defer p.mu.Unlock()
	var out []*estConn
	for _, c := range p.conns {
		select {
		case <-c.ended:
		default:
			out = append(out, c)
		}
	}
	return out
}

type noopListener struct {
	mu  sync.Mutex
	n   int
	cur int
}

func (l *noopListener) OnConnectionListUpdate(m map[string]session.ManagedMuxSession) {
	l.mu.Lock()
	l.n++
	l.cur = len(m)
	l.mu.Unlock()
}

func establisher(c estCase, seed int64) (viol []rec.Violation, counts map[string]int64, inconclusive string, sample any) {
	counts = map[string]int64{}
	v := func(sig, f string, a ...any) {
		viol = append(viol, rec.Violation{Prop: "C10", Sig: "establisher:" + sig, What: fmt.Sprintf(f, a...), Witness: c})
	}
	mux.MuxManagerStartDelay = 0
	peer := &estPeer{addr: freeAddr()}
	life, cancel := context.WithCancel(context.Background())
	defer cancel()
	probe := fakes.NewProbe(seed)
	lst := &noopListener{}
	cd := config.ClusterDefinition{ConnectionType: config.ConnTypeMuxClient, MuxCount: c.N, MuxAddressInfo: config.TCPTLSInfo{ConnectionString: peer.addr}}
	// the first phase decides what the manager finds when it starts
	started := false
	var mgr mux.MultiMuxManager
	start := func() string {
		if started {
			return ""
		}
		started = true
		var err error
		mgr, err = mux.NewGRPCMuxManager(life, "verif-est", cd, lst, grpc.NewServer(), probe)
		if err != nil {
			return "NewGRPCMuxManager: " + err.Error()
		}
		mgr.Start()
		return ""
	}
	var trace []string
	note := func(f string, a ...any) { trace = append(trace, fmt.Sprintf(f, a...)) }
	cancelled := false
	var cancelledAt time.Time
	for _, ph := range c.Phases {
		switch {
		case ph == "listen" || ph == "accept-close":
			if err := peer.listen(ph); err != nil {
				return viol, counts, "listen: " + err.Error(), nil
			}
			if e := start(); e != "" {
				return viol, counts, e, nil
			}
		case ph == "refuse":
			peer.refuse()
			if e := start(); e != "" {
				return viol, counts, e, nil
			}
		case ph == "wait-full":
			// bound: a dial back-off that has grown during a refuse phase can be several seconds
			ok := waitUntil(45*time.Second, func() bool { return len(peer.live()) == c.N && len(mgr.GetMuxConnections()) == c.N })
			counts["full_strength_waits"]++
			if !ok {
				peer.mu.Lock()
				acc := p2s(peer.lastAcc)
				peer.mu.Unlock()
				v("pool-not-refilled", "with the peer listening and working the pool did not reach %d sessions within 45 s: %d connections open at the peer, %d sessions registered (last accept %s ago)", c.N, len(peer.live()), len(mgr.GetMuxConnections()), acc)
			} else {
				counts["full_strength_reached"]++
			}
		case ph == "kill-one" || ph == "kill-all":
			lv := peer.live()
			if ph == "kill-one" && len(lv) > 1 {
				lv = lv[:1]
			}
			for _, ec := range lv {
				_ = ec.c.Close()
			}
			counts["sessions_killed_by_peer"] += int64(len(lv))
		case ph == "cancel":
			cancel()
			cancelled, cancelledAt = true, time.Now()
		case len(ph) > 6 && ph[:6] == "sleep:":
			var ms int
			fmt.Sscanf(ph[6:], "%d", &ms)
			time.Sleep(time.Duration(ms) * time.Millisecond)
		}
		peer.mu.Lock()
		note("%s -> open=%d accepts=%d", ph, peer.open, peer.accepts)
		peer.mu.Unlock()
	}
	if !cancelled {
		cancel()
		cancelledAt = time.Now()
	}
	// ---- shutdown clauses
	// (a) every connection is closed
	if !waitUntil(15*time.Second, func() bool { return len(peer.live()) == 0 }) {
		v("connection-open-after-shutdown", "%d connections made by the manager are still open at the peer 15 s after its lifetime ended", len(peer.live()))
	} else {
		counts["all_connections_closed_after_shutdown"]++
	}
	// (b) the manager reports closed. The establisher may sit in a back-off sleep (at most 30 s by its policy)
	// plus one 5 s dial when the lifetime ends; in these cases the back-off is still short
	closedReported := false
	select {
	case <-mgr.CloseChan():
		closedReported = true
		counts["shutdown_completed"]++
		counts["shutdown_ms_max"] = max(counts["shutdown_ms_max"], time.Since(cancelledAt).Milliseconds())
	case <-time.After(50 * time.Second):
	}
	// (c) nothing connects any more - also not to a peer that comes back
	peer.mu.Lock()
	accBefore := peer.accepts
	peer.mu.Unlock()
	if err := peer.listen("listen"); err != nil {
		return viol, counts, "re-listen: " + err.Error(), nil
	}
	time.Sleep(8 * time.Second)
	peer.mu.Lock()
	late := peer.accepts - accBefore
	peer.mu.Unlock()
	switch {
	case late > 0 && closedReported:
		v("connects-after-shutdown-completed", "%d connections arrived at the peer after the manager had reported itself closed", late)
	case late > 0:
		v("still-dialling-after-shutdown", "the manager never reported closed within 50 s of its lifetime ending and %d connections arrived at the peer afterwards (%d s after the end): its establisher is still running", late, int(time.Since(cancelledAt).Seconds()))
	case !closedReported:
		v("shutdown-never-completes", "the manager did not report closed (CloseChan) within 50 s after its lifetime ended although no connection is open - its provider is still running (back-off bound of the establisher: 30 s + one 5 s dial)")
	default:
		counts["quiet_after_shutdown"]++
	}
	peer.refuse()
	for _, ec := range peer.live() {
		_ = ec.c.Close()
	}
	peer.mu.Lock()
	if peer.maxOpen > c.N {
		v("pool-above-limit", "%d connections were open at the peer at once, the configured count is %d", peer.maxOpen, c.N)
	}
	counts["connections_accepted"] += int64(peer.accepts)
	counts["max_open_at_once"] = max(counts["max_open_at_once"], int64(peer.maxOpen))
	peer.mu.Unlock()
	sample = map[string]any{"case": c, "trace": trace}
	return
}

func p2s(t time.Time) string {
	if t.IsZero() {
		return "never"
	}
	return time.Since(t).Round(time.Millisecond).String()
}

func TestMuxEstablisher(t *testing.T) {
	out := rec.Default()
	cases := []estCase{
		{1, []string{"listen", "wait-full", "kill-one", "wait-full", "cancel"}},
		{3, []string{"listen", "wait-full", "kill-one", "wait-full", "kill-all", "wait-full", "cancel"}},
		{2, []string{"refuse", "sleep:300", "cancel"}},
		{2, []string{"refuse", "sleep:2600", "cancel"}},
		{3, []string{"listen", "wait-full", "refuse", "kill-all", "sleep:1500", "cancel"}},
		{2, []string{"refuse", "sleep:1200", "listen", "wait-full", "cancel"}},
		{3, []string{"listen", "sleep:30", "cancel"}},
		{2, []string{"accept-close", "sleep:1500", "listen", "wait-full", "kill-one", "sleep:50", "cancel"}},
		{3, []string{"listen", "wait-full", "kill-one", "kill-one", "wait-full", "refuse", "kill-one", "sleep:700", "listen", "wait-full", "cancel"}},
	}
	if rec.Thorough() {
		for n := 1; n <= 4; n++ {
			for _, ms := range []int{100, 900, 1700, 4200} {
				cases = append(cases, estCase{n, []string{"refuse", fmt.Sprintf("sleep:%d", ms), "cancel"}},
					estCase{n, []string{"listen", "wait-full", "refuse", "kill-all", fmt.Sprintf("sleep:%d", ms), "listen", "wait-full", "kill-one", "cancel"}})
			}
		}
	}
	for idx, c := range cases {
		name := fmt.Sprintf("establisher/%d", idx)
		if !rec.Want(idx, name) {
			continue
		}
		out.Begin(name, c)
		viol, counts, inc, sample := establisher(c, rec.Mix(rec.Seed(), name))
		l := rec.Line{Case: name, Viol: dedupe(viol), Counts: counts, Class: fmt.Sprint(c.N, c.Phases), Sample: sample}
		if inc != "" && len(viol) == 0 {
			l.Verdict, l.Why = rec.Inconclusive, inc
		}
		out.End(l)
	}
}

// ---------------------------------------------------------------------------------------------------------
// C10, receiver role over real TCP: the real GRPCMuxManager configured as mux server listens; harness peers
// dial MORE connections than the configured count, keep them, kill them, and the lifetime is cancelled with
// peers queued. Observed from the peers alone: a peer's session is "in" once its own yamux ping is answered.

type rcvCase struct {
	N      int      `json:"n"`
	Phases []string `json:"phases"` // dial:<k> | wait-full | kill-in:<k> | kill-queued:<k> | cancel | sleep:<ms>
}

// freezeConn: a peer that goes silent without closing: once frozen, nothing it would send leaves, and nothing
// it receives is read (the TCP connection stays up - a hung process, a black-holing middlebox)
type freezeConn struct {
	net.Conn
	frozen chan struct{}
}

func (f *freezeConn) Write(b []byte) (int, error) {
	select {
	case <-f.frozen:
		return len(b), nil
	default:
		return f.Conn.Write(b)
	}
}

func (f *freezeConn) Read(b []byte) (int, error) {
	n, err := f.Conn.Read(b)
	select {
	case <-f.frozen:
		<-make(chan struct{}) // never returns: the peer no longer reads
	default:
	}
	return n, err
}

type rcvPeer struct {
	fz     *freezeConn
	id     int
	raw    net.Conn
	sess   *yamux.Session
	in     chan struct{} // closed once a ping was answered
	closed chan struct{} // closed once the session ended
	killed bool
}

func receiver(c rcvCase, seed int64) (viol []rec.Violation, counts map[string]int64, inconclusive string, sample any) {
	counts = map[string]int64{}
	v := func(sig, f string, a ...any) {
		viol = append(viol, rec.Violation{Prop: "C10", Sig: "receiver:" + sig, What: fmt.Sprintf(f, a...), Witness: c})
	}
	mux.MuxManagerStartDelay = 0
	addr := freeAddr()
	life, cancel := context.WithCancel(context.Background())
	defer cancel()
	probe := fakes.NewProbe(seed)
	lst := &noopListener{}
	cd := config.ClusterDefinition{ConnectionType: config.ConnTypeMuxServer, MuxCount: c.N, MuxAddressInfo: config.TCPTLSInfo{ConnectionString: addr}}
	mgr, err := mux.NewGRPCMuxManager(life, "verif-rcv", cd, lst, grpc.NewServer(), probe)
	if err != nil {
		return nil, counts, "NewGRPCMuxManager: " + err.Error(), nil
	}
	mgr.Start()
	var mu sync.Mutex
	var peers []*rcvPeer
	var trace []string
	dial := func() *rcvPeer {
		raw, err := net.DialTimeout("tcp", addr, 2*time.Second)
		if err != nil {
			return nil
		}
		yc := yamux.DefaultConfig()
		yc.LogOutput = io.Discard
		yc.EnableKeepAlive = false
		yc.ConnectionWriteTimeout = 120 * time.Second // a queued peer's ping waits until the proxy takes the connection
		fz := &freezeConn{Conn: raw, frozen: make(chan struct{})}
		s, err := yamux.Client(fz, yc)
		if err != nil {
			raw.Close()
			return nil
		}
		mu.Lock()
		p := &rcvPeer{fz: fz, id: len(peers), raw: raw, sess: s, in: make(chan struct{}), closed: make(chan struct{})}
		peers = append(peers, p)
		mu.Unlock()
		go func() {
			if _, err := s.Ping(); err == nil {
				close(p.in)
			}
		}()
		go func() { <-s.CloseChan(); close(p.closed) }()
		go func() {
			for {
				st, err := s.Accept()
				if err != nil {
					return
				}
				_ = st.Close()
			}
		}()
		return p
	}
	isIn := func(p *rcvPeer) bool {
		select {
		case <-p.closed:
			return false
		default:
		}
		select {
		case <-p.in:
			return true
		default:
			return false
		}
	}
	isQueued := func(p *rcvPeer) bool {
		select {
		case <-p.closed:
			return false
		case <-p.in:
			return false
		default:
			return true
		}
	}
	sel := func(f func(*rcvPeer) bool) []*rcvPeer {
		mu.Lock()
		defer mu.Unlock()
		var out []*rcvPeer
		for _, p := range peers {
			if f(p) {
				out = append(out, p)
			}
		}
		return out
	}
	maxIn := 0
	stopMon := make(chan struct{})
	var monWG sync.WaitGroup
	monWG.Add(1)
	go func() { // limit monitor: sessions the proxy talks to at once, and sessions it lists
		defer monWG.Done()
		for {
			select {
			case <-stopMon:
				return
			default:
			}
			// (a peer the harness froze cannot tell whether the proxy still serves it: the proxy's own table counts for those)
			n := len(sel(func(p *rcvPeer) bool {
				mu2 := isIn(p)
				return mu2 && !p.killed
			}))
			if r := len(mgr.GetMuxConnections()); r > n {
				n = r
			}
			mu.Lock()
			if n > maxIn {
				maxIn = n
			}
			mu.Unlock()
			time.Sleep(2 * time.Millisecond)
		}
	}()
	cancelled := false
	var cancelledAt time.Time
	for _, ph := range c.Phases {
		var k int
		switch {
		case strings.HasPrefix(ph, "dial:"):
			fmt.Sscanf(ph[5:], "%d", &k)
			for i := 0; i < k; i++ {
				if dial() != nil {
					counts["connections_dialled"]++
				}
			}
		case ph == "wait-full":
			want := c.N
			mu.Lock()
			alive := 0
			for _, p := range peers {
				if !p.killed {
					alive++
				}
			}
			mu.Unlock()
			if alive < want {
				want = alive
			}
			counts["full_strength_waits"]++
			if !waitUntil(30*time.Second, func() bool { return len(sel(isIn)) == want && len(mgr.GetMuxConnections()) == want }) {
				v("pool-not-refilled", "%d peers are connected and waiting but only %d are being served and %d sessions are registered after 30 s (configured count %d)", alive, len(sel(isIn)), len(mgr.GetMuxConnections()), c.N)
			} else {
				counts["full_strength_reached"]++
			}
		case strings.HasPrefix(ph, "kill-in:"), strings.HasPrefix(ph, "kill-queued:"):
			fmt.Sscanf(ph[strings.Index(ph, ":")+1:], "%d", &k)
			f := isIn
			if strings.HasPrefix(ph, "kill-queued:") {
				f = isQueued
			}
			for i, p := range sel(f) {
				if i >= k {
					break
				}
				mu.Lock()
				p.killed = true
				mu.Unlock()
				_ = p.sess.Close()
				_ = p.raw.Close()
				counts["sessions_killed_by_peer"]++
			}
		case strings.HasPrefix(ph, "freeze-in:"):
			// k served peers go silent (no FIN, no RST); the proxy's own keep-alive (30 s interval, 10 s timeout on
			// the receiver's sessions) has to notice, drop them and let queued peers in
			fmt.Sscanf(ph[10:], "%d", &k)
			var frozenPeers []*rcvPeer
			for i, p := range sel(isIn) {
				if i >= k {
					break
				}
				close(p.fz.frozen)
				mu.Lock()
				p.killed = true
				mu.Unlock()
				frozenPeers = append(frozenPeers, p)
				counts["peers_gone_silent"]++
			}
			start := time.Now()
			ok := waitUntil(75*time.Second, func() bool {
				reg := mgr.GetMuxConnections()
				n := 0
				for _, p := range sel(isIn) {
					frozen := false
					for _, f := range frozenPeers {
						if f == p {
							frozen = true
						}
					}
					if !frozen {
						n++
					}
				}
				mu.Lock()
				alive := 0
				for _, p := range peers {
					if !p.killed {
						alive++
					}
				}
				mu.Unlock()
				want := min(c.N, alive)
				return n == want && len(reg) == want
			})
			if !ok {
				v("silent-session-never-replaced", "%d served peers went silent (connection up, nothing sent or read); 75 s later the manager still lists %d sessions and the peers waiting in the backlog have not been let in (configured count %d)", len(frozenPeers), len(mgr.GetMuxConnections()), c.N)
			} else {
				counts["silent_sessions_replaced"]++
				counts["silent_session_detect_ms_max"] = max(counts["silent_session_detect_ms_max"], time.Since(start).Milliseconds())
			}
		case ph == "cancel":
			cancel()
			cancelled, cancelledAt = true, time.Now()
		case strings.HasPrefix(ph, "sleep:"):
			fmt.Sscanf(ph[6:], "%d", &k)
			time.Sleep(time.Duration(k) * time.Millisecond)
		}
		trace = append(trace, fmt.Sprintf("%s -> in=%d queued=%d registered=%d", ph, len(sel(isIn)), len(sel(isQueued)), len(mgr.GetMuxConnections())))
	}
	if !cancelled {
		cancel()
		cancelledAt = time.Now()
	}
	// shutdown: every served session ends, the manager reports closed, the port stops accepting
	// (peers the harness froze never see anything again: they are not asked)
	stillIn := func(p *rcvPeer) bool {
		select {
		case <-p.fz.frozen:
			return false
		default:
			return isIn(p)
		}
	}
	if !waitUntil(15*time.Second, func() bool { return len(sel(stillIn)) == 0 }) {
		v("session-open-after-shutdown", "%d sessions are still served 15 s after the manager's lifetime ended", len(sel(stillIn)))
	} else {
		counts["all_sessions_closed_after_shutdown"]++
	}
	select {
	case <-mgr.CloseChan():
		counts["shutdown_completed"]++
		counts["shutdown_ms_max"] = max(counts["shutdown_ms_max"], time.Since(cancelledAt).Milliseconds())
	case <-time.After(30 * time.Second):
		v("shutdown-never-completes", "the manager did not report closed (CloseChan) within 30 s after its lifetime ended")
	}
	// a peer that dials now must not get a session (the listener is closed: refused, or never served)
	late := dial()
	if late != nil {
		select {
		case <-late.in:
			v("serves-after-shutdown", "a connection dialled after the manager reported closed was served (its ping was answered)")
		case <-late.closed:
			counts["late_dial_not_served"]++
		case <-time.After(3 * time.Second):
			counts["late_dial_not_served"]++
		}
		_ = late.raw.Close()
	} else {
		counts["late_dial_refused"]++
	}
	close(stopMon)
	monWG.Wait()
	if len(mgr.GetMuxConnections()) != 0 {
		v("registered-after-shutdown", "%d sessions still registered after shutdown", len(mgr.GetMuxConnections()))
	}
	mu.Lock()
	if maxIn > c.N {
		v("pool-above-limit", "%d sessions were served / registered at once, the configured count is %d", maxIn, c.N)
	}
	counts["max_served_at_once"] = max(counts["max_served_at_once"], int64(maxIn))
	for _, p := range peers {
		_ = p.raw.Close()
	}
	mu.Unlock()
	sample = map[string]any{"case": c, "trace": trace}
	return
}

func TestMuxReceiver(t *testing.T) {
	out := rec.Default()
	cases := []rcvCase{
		{1, []string{"dial:3", "wait-full", "sleep:300", "kill-in:1", "wait-full", "kill-in:1", "wait-full", "cancel"}},
		{2, []string{"dial:5", "wait-full", "sleep:200", "kill-in:2", "wait-full", "kill-queued:1", "kill-in:1", "wait-full", "cancel"}},
		{3, []string{"dial:2", "wait-full", "dial:4", "wait-full", "sleep:200", "cancel"}},
		{2, []string{"cancel"}},
		{2, []string{"dial:6", "sleep:20", "cancel"}},
		{3, []string{"dial:3", "wait-full", "kill-in:3", "dial:3", "wait-full", "kill-in:1", "dial:2", "wait-full", "cancel"}},
		{1, []string{"dial:2", "wait-full", "freeze-in:1", "cancel"}},
	}
	if rec.Thorough() {
		for n := 1; n <= 4; n++ {
			for extra := 0; extra <= 3; extra++ {
				cases = append(cases, rcvCase{n, []string{fmt.Sprintf("dial:%d", n+extra), "wait-full", "sleep:100", fmt.Sprintf("kill-in:%d", n), "wait-full", "cancel"}},
					rcvCase{n, []string{fmt.Sprintf("dial:%d", n+extra), fmt.Sprintf("sleep:%d", 5+30*extra), "cancel"}})
			}
		}
	}
	for idx, c := range cases {
		name := fmt.Sprintf("receiver/%d", idx)
		if !rec.Want(idx+4, name) {
			continue
		}
		out.Begin(name, c)
		viol, counts, inc, sample := receiver(c, rec.Mix(rec.Seed(), name))
		l := rec.Line{Case: name, Viol: dedupe(viol), Counts: counts, Class: fmt.Sprint("rcv", c.N, c.Phases), Sample: sample}
		if inc != "" && len(viol) == 0 {
			l.Verdict, l.Why = rec.Inconclusive, inc
		}
		out.End(l)
	}
}
