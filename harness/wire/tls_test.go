package wire

import (
	"context"
	"crypto/tls"
	"fmt"
	"os"
	"testing"
	"time"

	"go.temporal.io/server/api/adminservice/v1"
	"google.golang.org/grpc"
	"google.golang.org/grpc/codes"
	"google.golang.org/grpc/credentials"
	"google.golang.org/grpc/status"

	"github.com/temporalio/s2s-proxy/config"
	"github.com/temporalio/s2s-proxy/encryption"
	"verifharness/pki"
	"verifharness/rec"
)

// C19 through the assembled ClusterConnection: the TLS settings of the configuration must actually
// be installed on the remote-facing TCP server and on the client the proxy uses towards a cluster.

func tlsWire(p *pki.PKI) (viol []rec.Violation, counts map[string]int64, inconclusive string) {
	counts = map[string]int64{}
	v := func(sig, f string, a ...any) {
		viol = append(viol, rec.Violation{Prop: "C19", Sig: "assembled:" + sig, What: fmt.Sprintf(f, a...)})
	}
	own := p.Creds["valid-ca1-second"]
	// (1) server role: inbound TCP server with TLS + CA verification
	a, err := assemble(false, func(cfg *config.ClusterConnConfig) {
		cfg.Remote.TcpServer.TLSConfig = encryption.TLSConfig{CertificatePath: own.CertPath, KeyPath: own.KeyPath, RemoteCAPath: p.CA1Path}
	})
	if err != nil {
		return nil, counts, "assemble: " + err.Error()
	}
	for _, name := range []string{"valid-ca1", "self-signed", "other-ca", "expired-ca1", "none", "server-usage-only-ca1"} {
		c := p.Creds[name]
		tc := &tls.Config{RootCAs: p.CA1Pool, ServerName: "proxy.test", GetClientCertificate: func(*tls.CertificateRequestInfo) (*tls.Certificate, error) {
			if c.TLSCert == nil {
				return &tls.Certificate{}, nil
			}
			return c.TLSCert, nil
		}}
		conn, err := grpc.NewClient(a.inboundAddr, grpc.WithTransportCredentials(credentials.NewTLS(tc)))
		if err != nil {
			continue
		}
		a.local.take()
		ctx, cancel := context.WithTimeout(context.Background(), 4*time.Second)
		_, err = adminservice.NewAdminServiceClient(conn).DescribeCluster(ctx, &adminservice.DescribeClusterRequest{})
		cancel()
		conn.Close()
		n := len(a.local.take())
		counts["assembled_handshakes"]++
		if name == "valid-ca1" {
			if err != nil || n != 1 {
				v("valid-client-refused", "assembled TLS inbound server refused a client with a certificate of the configured CA: %v", err)
			} else {
				counts["admitted"]++
			}
		} else if n > 0 || err == nil {
			v("admitted:server:tcp:peer="+name, "assembled TLS inbound server served a client presenting %q: the local cluster recorded %d call(s), error %v", name, n, err)
		} else {
			counts["refused"]++
		}
	}
	// a plaintext client must not get through either
	pc, err := a.dialInbound()
	if err == nil {
		ctx, cancel := context.WithTimeout(context.Background(), 3*time.Second)
		_, e := adminservice.NewAdminServiceClient(pc).DescribeCluster(ctx, &adminservice.DescribeClusterRequest{})
		cancel()
		pc.Close()
		if e == nil || len(a.local.take()) > 0 {
			v("plaintext-admitted", "the inbound server is configured with TLS but served a plaintext client")
		} else {
			counts["refused"]++
		}
	}
	a.close()
	// (2) client role: the proxy's client towards the local cluster with TLS; the "cluster" presents each credential
	for _, name := range []string{"valid-ca1", "self-signed", "other-ca", "expired-ca1", "wrong-name-ca1"} {
		c := p.Creds[name]
		srv := grpc.NewServer(grpc.Creds(credentials.NewTLS(&tls.Config{Certificates: []tls.Certificate{*c.TLSCert}})))
		called := 0
		adminservice.RegisterAdminServiceServer(srv, &countingAdmin{n: &called})
		lis, err := netListen()
		if err != nil {
			continue
		}
		go srv.Serve(lis)
		b, err := assemble(false, func(cfg *config.ClusterConnConfig) {
			cfg.Local.TcpClient = config.TCPTLSInfo{ConnectionString: lis.Addr().String(), TLSConfig: encryption.TLSConfig{RemoteCAPath: p.CA1Path, CAServerName: "proxy.test"}}
		})
		if err != nil {
			srv.Stop()
			return viol, counts, "assemble (client role): " + err.Error()
		}
		conn, err := b.dialInbound()
		if err == nil {
			ctx, cancel := context.WithTimeout(context.Background(), 4*time.Second)
			_, e := adminservice.NewAdminServiceClient(conn).DescribeCluster(ctx, &adminservice.DescribeClusterRequest{})
			cancel()
			conn.Close()
			counts["assembled_handshakes"]++
			if name == "valid-ca1" {
				if e != nil || called != 1 {
					v("valid-server-refused", "the proxy's TLS client refused a cluster presenting a certificate of the configured CA and name: %v", e)
				} else {
					counts["admitted"]++
				}
			} else if called > 0 {
				v("admitted:client:tcp:peer="+name, "the proxy's TLS client sent a call to a cluster presenting %q (status %v)", name, status.Code(e))
			} else if status.Code(e) == codes.OK {
				v("admitted:client:tcp:peer="+name, "call succeeded against a cluster presenting %q", name)
			} else {
				counts["refused"]++
			}
		}
		b.close()
		srv.Stop()
	}
	return
}

type countingAdmin struct {
	adminservice.UnimplementedAdminServiceServer
	n *int
}

func (c *countingAdmin) DescribeCluster(context.Context, *adminservice.DescribeClusterRequest) (*adminservice.DescribeClusterResponse, error) {
	*c.n++
	return &adminservice.DescribeClusterResponse{ClusterName: "tls"}, nil
}

func TestTLSWire(t *testing.T) {
	out := rec.Default()
	if !rec.Want(0, "tls-wire") {
		return
	}
	dir, err := os.MkdirTemp("", "verif-tlswire-*")
	if err != nil {
		t.Fatal(err)
	}
	defer os.RemoveAll(dir)
	out.Begin("tls-wire", nil)
	viol, counts, inc := tlsWire(pki.New(dir))
	l := rec.Line{Case: "tls-wire", Viol: dedupe(viol), Counts: counts, Class: "tls-wire"}
	if inc != "" && len(viol) == 0 {
		l.Verdict, l.Why = rec.Inconclusive, inc
	}
	out.End(l)
}
