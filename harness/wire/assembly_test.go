package wire

import (
	"context"
	"fmt"
	"math/rand"
	"strconv"
	"testing"
	"time"

	commonpb "go.temporal.io/api/common/v1"
	historypb "go.temporal.io/api/history/v1"
	"go.temporal.io/server/api/adminservice/v1"
	replicationv1 "go.temporal.io/server/api/replication/v1"
	"go.temporal.io/server/client/history"
	"google.golang.org/grpc"
	"google.golang.org/grpc/codes"
	"google.golang.org/grpc/metadata"
	"google.golang.org/grpc/status"
	"google.golang.org/protobuf/proto"
	"google.golang.org/protobuf/reflect/protoreflect"

	"github.com/temporalio/s2s-proxy/config"
	"verifharness/gen"
	"verifharness/rec"
)

// TestAssembly: what only the assembled ClusterConnection can show - which map each server got,
// that the ACL guards the inbound server after translation, which LCM parameters each direction
// got, that hostile stream metadata does not wedge the real gRPC servers. The block that runs is
// selected by the property being checked (VERIF_PROP).

func invoke(conn *grpc.ClientConn, m gen.Method, req, resp proto.Message, md ...string) error {
	ctx, cancel := context.WithTimeout(context.Background(), 10*time.Second)
	defer cancel()
	if len(md) > 0 {
		ctx = metadata.NewOutgoingContext(ctx, metadata.Pairs(md...))
	}
	return conn.Invoke(ctx, m.FullName, req, resp)
}

func allSites(m proto.Message, want string) (n int, bad string) {
	for _, s := range gen.NamespaceSites(m) {
		n++
		if s.Value != want && bad == "" {
			bad = fmt.Sprintf("%s=%q", s.Path, s.Value)
		}
	}
	return
}

// directionBlock: names must be mapped remote->local on the way in and local->remote on the way back
// through the inbound server, and the opposite through the outbound server.
func directionBlock(prop string, mux bool) (viol []rec.Violation, counts map[string]int64, inconclusive string) {
	counts = map[string]int64{}
	v := func(sig, f string, a ...any) {
		viol = append(viol, rec.Violation{Prop: prop, Sig: sig, What: fmt.Sprintf(f, a...)})
	}
	a, err := assemble(mux, func(cfg *config.ClusterConnConfig) {
		cfg.NamespaceTranslation = config.StringTranslator{Mappings: []config.StringMapping{{Local: "local-ns", Remote: "remote-ns"}, {Local: "l2", Remote: "local-ns-not"}}}
		cfg.SearchAttributeTranslation = config.SATranslationConfig{NamespaceMappings: []config.SANamespaceMapping{{Name: "ns", NamespaceId: "ns-id",
			Mappings: []config.SAMapping{{LocalName: "LocalAttr", RemoteName: "RemoteAttr"}}}}}
	})
	if err != nil {
		return nil, counts, "assemble: " + err.Error()
	}
	defer a.close()
	in, err := a.dialInbound()
	if err != nil {
		return nil, counts, err.Error()
	}
	defer in.Close()
	rng := rand.New(rand.NewSource(rec.Seed()))
	type side struct {
		name         string
		conn         *grpc.ClientConn
		fake         *fakeCluster
		from, to     string // caller's name for the namespace, callee's name
		saFrom, saTo string
	}
	sides := []side{{"inbound", in, a.local, "remote-ns", "local-ns", "RemoteAttr", "LocalAttr"}}
	if !mux {
		oc, err := a.dialOutbound()
		if err == nil {
			defer oc.Close()
			sides = append(sides, side{"outbound", oc, a.remote, "local-ns", "remote-ns", "LocalAttr", "RemoteAttr"})
		}
	}
	for _, sd := range sides {
		sd := sd
		for _, m := range gen.AllMethods() {
			if m.ClientStreaming || m.ServerStreaming {
				continue
			}
			if !isAdmin(m) && (m.Name == "RegisterNamespace" || m.Name == "DeprecateNamespace") {
				continue
			}
			reqNS := gen.EnumeratePaths(m.In, gen.IsNamespaceNameField, 2, 12, 400)
			respNS := gen.EnumeratePaths(m.Out, gen.IsNamespaceNameField, 2, 12, 400)
			var reqSA, respSA []gen.Path
			if isAdmin(m) {
				reqSA = gen.EnumeratePaths(m.In, isSAContainerField, 2, 12, 400)
				respSA = gen.EnumeratePaths(m.Out, isSAContainerField, 2, 12, 400)
			}
			rounds := 1
			for _, l := range []int{len(reqNS), len(respNS), len(reqSA), len(respSA)} {
				if l > rounds {
					rounds = l
				}
			}
			if rounds > 6 {
				rounds = 6
			}
			for k := 0; k < rounds; k++ {
				pick := func(ps []gen.Path) gen.Path {
					if len(ps) == 0 {
						return nil
					}
					return ps[(k*len(ps)/rounds)%len(ps)]
				}
				rp, sp := pick(respNS), pick(respSA)
				// the callee answers with ITS names at the chosen response paths
				sd.fake.mu.Lock()
				sd.fake.respond = func(mm gen.Method, _ proto.Message) proto.Message {
					r := gen.New(mm.Out)
					if rp != nil {
						gen.SetString(r, rp, sd.to)
					}
					if sp != nil {
						putKeys(r, sp, []string{sd.saTo, "Plain"})
					}
					gen.FillNamespaceSites(r, sd.to)
					return r
				}
				sd.fake.mu.Unlock()
				req := gen.New(m.In)
				if p := pick(reqNS); p != nil {
					gen.SetString(req, p, sd.from)
				}
				if p := pick(reqSA); p != nil {
					putKeys(req, p, []string{sd.saFrom, "Plain"})
				}
				gen.FillNamespaceSites(req, sd.from)
				_ = rng
				sd.fake.take()
				resp := gen.New(m.Out)
				err := invoke(sd.conn, m, req, resp)
				calls := sd.fake.take()
				counts["calls"]++
				if status.Code(err) == codes.Unimplemented {
					break
				}
				if err != nil {
					if status.Code(err) == codes.Unavailable || status.Code(err) == codes.DeadlineExceeded {
						return viol, counts, fmt.Sprintf("%s: %v", m.FullName, err)
					}
					counts["calls_failed"]++
					continue
				}
				if len(calls) != 1 || calls[0].Req == nil {
					continue
				}
				if n, bad := allSites(calls[0].Req, sd.to); bad != "" {
					v("request-direction-wrong:"+sd.name, "%s server, %s: the serving cluster received %s, expected every namespace to read %q (caller sent %q)", sd.name, m.Name, bad, sd.to, sd.from)
				} else if n > 0 {
					counts["request_sites_translated"] += int64(n)
				}
				if n, bad := allSites(resp, sd.from); bad != "" {
					v("response-direction-wrong:"+sd.name, "%s server, %s: the caller received %s, expected every namespace to read %q (callee answered %q)", sd.name, m.Name, bad, sd.from, sd.to)
				} else if n > 0 {
					counts["response_sites_translated"] += int64(n)
				}
				if isAdmin(m) {
					for _, s := range gen.SASites(calls[0].Req) {
						if s.Value == sd.saFrom {
							v("sa-request-direction-wrong:"+sd.name, "%s server, %s: search-attribute key %q reached the serving cluster untranslated at %s", sd.name, m.Name, s.Value, s.Path)
						}
						if s.Value == sd.saTo {
							counts["sa_keys_translated"]++
						}
					}
					for _, s := range gen.SASites(resp) {
						if s.Value == sd.saTo {
							v("sa-response-direction-wrong:"+sd.name, "%s server, %s: search-attribute key %q came back untranslated at %s", sd.name, m.Name, s.Value, s.Path)
						}
						if s.Value == sd.saFrom {
							counts["sa_keys_translated"]++
						}
					}
				}
			}
		}
		sd.fake.mu.Lock()
		sd.fake.respond = nil
		sd.fake.mu.Unlock()
	}
	return
}

// aclNamespaceBlock (C16): the inbound server checks namespaces after translation, on both transports.
func aclNamespaceBlock(mux bool) (viol []rec.Violation, counts map[string]int64, inconclusive string) {
	counts = map[string]int64{}
	v := func(sig, f string, a ...any) {
		viol = append(viol, rec.Violation{Prop: "C16", Sig: sig, What: fmt.Sprintf(f, a...)})
	}
	a, err := assemble(mux, func(cfg *config.ClusterConnConfig) {
		cfg.NamespaceTranslation = config.StringTranslator{Mappings: []config.StringMapping{{Local: "allowed-local", Remote: "allowed-remote"}, {Local: "forbidden-local", Remote: "forbidden-remote"}}}
		cfg.ACLPolicy = &config.ACLPolicy{AllowedNamespaces: []string{"allowed-local"}}
	})
	if err != nil {
		return nil, counts, "assemble: " + err.Error()
	}
	defer a.close()
	in, err := a.dialInbound()
	if err != nil {
		return nil, counts, err.Error()
	}
	defer in.Close()
	evPaths := gen.EnumeratePaths((&historypb.HistoryEvent{}).ProtoReflect().Descriptor(), gen.IsNamespaceNameField, 2, 10, 1000)
	for _, m := range gen.AllMethods() {
		if m.ClientStreaming || m.ServerStreaming {
			continue
		}
		paths := gen.EnumeratePaths(m.In, gen.IsNamespaceNameField, 2, 14, 1000)
		blobPaths := gen.EnumeratePaths(m.In, gen.IsEventBlobSite, 2, 14, 100)
		type variant struct {
			allowed, forbidden string
			bypass             bool
		}
		for _, vr := range []variant{{"allowed-remote", "forbidden-remote", false}, {"allowed-remote", "unmapped-other", false}, {"allowed-local", "forbidden-local", true}} {
			var md []string
			if vr.bypass {
				md = []string{"s2s-request-translation", "false"}
			}
			for pi, p := range paths {
				if pi%3 != 0 && len(paths) > 6 {
					continue
				}
				for _, forb := range []bool{false, true} {
					req := gen.New(m.In)
					gen.SetString(req, p, vr.allowed)
					gen.FillNamespaceSites(req, vr.allowed)
					if forb {
						gen.SetString(req, p, vr.forbidden)
					}
					a.local.take()
					err := invoke(in, m, req, gen.New(m.Out), md...)
					time.Sleep(500 * time.Microsecond)
					n := len(a.local.take())
					counts["acl_rpcs"]++
					code := status.Code(err)
					if code == codes.Unavailable || code == codes.DeadlineExceeded {
						return viol, counts, fmt.Sprintf("%s: %v", m.FullName, err)
					}
					always := !isAdmin(m) && (m.Name == "RegisterNamespace" || m.Name == "DeprecateNamespace")
					if forb || always {
						if n > 0 || code != codes.PermissionDenied {
							v("forbidden-namespace-reached-local-cluster:"+m.Name, "%s (mux=%v, bypass=%v): namespace %q at %s is outside the allow-list, yet the local cluster recorded %d call(s), status %v", m.Name, mux, vr.bypass, vr.forbidden, p, n, code)
						} else {
							counts["denied"]++
						}
					} else if code == codes.PermissionDenied {
						v("allowed-request-refused:"+m.Name, "%s (mux=%v, bypass=%v): every namespace is the allowed one (%q) but the request was refused", m.Name, mux, vr.bypass, vr.allowed)
					} else if n == 1 {
						counts["forwarded"]++
					}
				}
			}
			for _, bp := range blobPaths {
				ev := &historypb.HistoryEvent{EventId: 2}
				gen.SetString(ev, evPaths[len(evPaths)/2], vr.forbidden)
				req := gen.New(m.In)
				parent, f := gen.Descend(req, bp)
				blob := gen.EncodeEvents([]*historypb.HistoryEvent{ev})
				if f.IsList() {
					parent.Mutable(f).List().Append(protoreflectOf(blob))
				} else {
					parent.Set(f, protoreflectOf(blob))
				}
				a.local.take()
				err := invoke(in, m, req, gen.New(m.Out), md...)
				n := len(a.local.take())
				counts["acl_rpcs"]++
				if n > 0 || status.Code(err) != codes.PermissionDenied {
					v("forbidden-namespace-in-blob-reached-local-cluster:"+m.Name, "%s (mux=%v): a history blob names %q, yet %d call(s) reached the local cluster (status %v)", m.Name, mux, vr.forbidden, n, status.Code(err))
				} else {
					counts["denied"]++
				}
			}
		}
	}
	return
}

func protoreflectOf(b *commonpb.DataBlob) protoValue { return protoValueOf(b) }

// lcmBlockWire (C07): which TargetShardCount each direction got.
func lcmBlockWire(local, remote int32) (viol []rec.Violation, counts map[string]int64, inconclusive string) {
	counts = map[string]int64{}
	v := func(sig, f string, a ...any) {
		viol = append(viol, rec.Violation{Prop: "C07", Sig: sig, What: fmt.Sprintf("local=%d remote=%d: ", local, remote) + fmt.Sprintf(f, a...)})
	}
	a, err := assemble(false, func(cfg *config.ClusterConnConfig) {
		cfg.ShardCountConfig = config.ShardCountConfig{Mode: config.ShardCountLCM, LocalShardCount: local, RemoteShardCount: remote}
	})
	if err != nil {
		return nil, counts, "assemble: " + err.Error()
	}
	defer a.close()
	g := int64(local)
	for x, y := int64(local), int64(remote); y != 0; x, y = y, x%y {
		g = y
	}
	L := int64(local) * int64(remote) / g
	in, err1 := a.dialInbound()
	out, err2 := a.dialOutbound()
	if err1 != nil || err2 != nil {
		return nil, counts, "dial failed"
	}
	defer in.Close()
	defer out.Close()
	for _, sd := range []struct {
		name    string
		conn    *grpc.ClientConn
		fake    *fakeCluster
		serving int32
		cc, sc  string
	}{{"inbound", in, a.local, local, "2", "1"}, {"outbound", out, a.remote, remote, "1", "2"}} {
		sd.fake.mu.Lock()
		serving := sd.serving
		sd.fake.respond = func(mm gen.Method, _ proto.Message) proto.Message {
			if mm.Name == "DescribeCluster" {
				return &adminservice.DescribeClusterResponse{ClusterName: "c", HistoryShardCount: serving, FailoverVersionIncrement: 10}
			}
			return nil
		}
		sd.fake.mu.Unlock()
		c := adminservice.NewAdminServiceClient(sd.conn)
		ctx, cancel := context.WithTimeout(context.Background(), 10*time.Second)
		resp, err := c.DescribeCluster(ctx, &adminservice.DescribeClusterRequest{})
		cancel()
		if err != nil {
			return viol, counts, "DescribeCluster: " + err.Error()
		}
		if int64(resp.HistoryShardCount) != L {
			v("describe-cluster-not-lcm:"+sd.name, "%s server reports %d shards, the least common multiple is %d", sd.name, resp.HistoryShardCount, L)
		}
		for _, s := range []int64{1, L, (L + 1) / 2} {
			sd.fake.take()
			sctx, scancel := context.WithTimeout(metadata.NewOutgoingContext(context.Background(), metadata.Pairs(
				history.MetadataKeyClientClusterID, sd.cc, history.MetadataKeyClientShardID, "1", history.MetadataKeyServerClusterID, sd.sc, history.MetadataKeyServerShardID, strconv.FormatInt(s, 10))), 3*time.Second)
			st, err := c.StreamWorkflowReplicationMessages(sctx)
			if err == nil {
				_ = st.Send(&adminservice.StreamWorkflowReplicationMessagesRequest{Attributes: &adminservice.StreamWorkflowReplicationMessagesRequest_SyncReplicationState{SyncReplicationState: &replicationv1.SyncReplicationState{InclusiveLowWatermark: 1}}})
			}
			var got []callRec
			for i := 0; i < 400 && len(got) == 0; i++ {
				time.Sleep(5 * time.Millisecond)
				got = sd.fake.take()
			}
			scancel()
			counts["lcm_streams"]++
			if len(got) != 1 {
				v("stream-not-forwarded-once:"+sd.name, "%s server, LCM shard %d: %d outgoing streams", sd.name, s, len(got))
				continue
			}
			want := (s-1)%int64(sd.serving) + 1
			g1 := func(k string) string {
				if x := got[0].MD.Get(k); len(x) > 0 {
					return x[0]
				}
				return ""
			}
			if g1(history.MetadataKeyServerShardID) != strconv.FormatInt(want, 10) {
				v("wrong-real-shard:"+sd.name, "%s server, LCM shard %d forwarded to shard %s of a cluster with %d shards, want %d", sd.name, s, g1(history.MetadataKeyServerShardID), sd.serving, want)
			}
			if g1(history.MetadataKeyClientShardID) != strconv.FormatInt(s, 10) {
				v("initiator-shard-not-passed-on:"+sd.name, "%s server, LCM shard %d passed on as initiator shard %s", sd.name, s, g1(history.MetadataKeyClientShardID))
			}
		}
	}
	return
}

func TestAssembly(t *testing.T) {
	out := rec.Default()
	prop := rec.Prop()
	idx := 0
	runBlock := func(name string, f func() ([]rec.Violation, map[string]int64, string)) {
		idx++
		if !rec.Want(idx, name) {
			return
		}
		out.Begin(name, nil)
		viol, counts, inc := f()
		l := rec.Line{Case: name, Viol: dedupe(viol), Counts: counts, Class: name}
		if inc != "" && len(viol) == 0 {
			l.Verdict, l.Why = rec.Inconclusive, inc
		}
		out.End(l)
	}
	switch prop {
	case "C12", "C13", "C14":
		for _, mx := range []bool{false, true} {
			mx := mx
			runBlock(fmt.Sprintf("assembly/direction/mux=%v", mx), func() ([]rec.Violation, map[string]int64, string) { return directionBlock(prop, mx) })
		}
	case "C16":
		for _, mx := range []bool{false, true} {
			mx := mx
			runBlock(fmt.Sprintf("assembly/acl-namespace/mux=%v", mx), func() ([]rec.Violation, map[string]int64, string) { return aclNamespaceBlock(mx) })
		}
	case "C07":
		max := int32(5)
		if rec.Thorough() {
			max = 8
		}
		for l := int32(1); l <= max; l++ {
			for r := int32(1); r <= max; r++ {
				l, r := l, r
				runBlock(fmt.Sprintf("assembly/lcm/%dx%d", l, r), func() ([]rec.Violation, map[string]int64, string) { return lcmBlockWire(l, r) })
			}
		}
	}
}

func isSAContainerField(f protoreflect.FieldDescriptor) bool {
	if f.Name() != "search_attributes" {
		return false
	}
	if f.IsMap() {
		return f.MapKey().Kind() == protoreflect.StringKind && f.MapValue().Message() != nil && f.MapValue().Message().FullName() == "temporal.api.common.v1.Payload"
	}
	return f.Message() != nil && f.Message().FullName() == "temporal.api.common.v1.SearchAttributes"
}

func putKeys(msg proto.Message, p gen.Path, keys []string) {
	parent, f := gen.Descend(msg, p)
	var mp protoreflect.Map
	if f.IsMap() {
		mp = parent.Mutable(f).Map()
	} else {
		sa := parent.Mutable(f).Message()
		mp = sa.Mutable(sa.Descriptor().Fields().ByName("indexed_fields")).Map()
	}
	for _, k := range keys {
		pl := &commonpb.Payload{Data: []byte("\"v-" + k + "\"")}
		mp.Set(protoreflect.ValueOfString(k).MapKey(), protoreflect.ValueOfMessage(pl.ProtoReflect()))
	}
	gen.SetString(msg, gen.Path{}, "")
}
