package wire

import (
	"context"
	"fmt"
	"net"
	"strings"
	"testing"
	"time"

	"go.temporal.io/server/api/adminservice/v1"
	"google.golang.org/grpc"

	"github.com/temporalio/s2s-proxy/config"
	"github.com/temporalio/s2s-proxy/proxy"
	"verifharness/fakes"
	"verifharness/rec"
	"verifharness/routesim"
)

// C09, routing clause with a reachable remote owner: two assembled proxy instances joined by a real
// memberlist on loopback, both connected to the same two fake clusters. Each Temporal shard's stream
// lands on one instance; tasks for a shard owned by the other instance must travel over the
// intra-proxy stream and arrive exactly once, and acknowledgements must find their way back.

func udpTCPFreePort() int {
	for {
		l, err := net.Listen("tcp", "127.0.0.1:0")
		if err != nil {
			continue
		}
		port := l.Addr().(*net.TCPAddr).Port
		u, err := net.ListenPacket("udp", fmt.Sprintf("127.0.0.1:%d", port))
		l.Close()
		if err != nil {
			continue
		}
		u.Close()
		return port
	}
}

func clusterRouting(seed int64) (viol []rec.Violation, counts map[string]int64, inconclusive string) {
	counts = map[string]int64{}
	nL, nR := 2, 2
	sc := &routesim.Scenario{Class: "fair", Seed: seed, NL: nL, NR: nR, PeriodMS: 300, NWf: 11, Scripts: map[string][]routesim.Batch{}, Final: map[string]int64{}, Targets: map[string]routesim.TargetBeh{}, Window: 4}
	recd := routesim.NewRecorder(sc)
	hold := make(chan struct{}) // sources wait for this before sending tasks (ownership must have propagated)
	mk := func(id, n int) *wireCluster {
		lis, _ := net.Listen("tcp", "127.0.0.1:0")
		c := &wireCluster{id: id, n: n, recd: recd, script: map[int][]routesim.Batch{}, final: map[int]int64{}, lis: lis, inc: map[int]int{}, nwf: 11, hold: hold}
		for i := 1; i <= n; i++ {
			idb := int64(100 * i)
			for k := 0; k < 10; k++ {
				c.script[i] = append(c.script[i], routesim.Batch{IDs: []int64{idb}, High: idb + 1, WaitMS: 20})
				idb++
			}
			c.final[i] = idb
			sc.Scripts[c.name(i)], sc.Final[c.name(i)] = c.script[i], idb
		}
		c.srv = grpc.NewServer()
		adminservice.RegisterAdminServiceServer(c.srv, c)
		go c.srv.Serve(lis)
		return c
	}
	L, R := mk(1, nL), mk(2, nR)
	defer L.srv.Stop()
	defer R.srv.Stop()
	type px struct {
		name         string
		in, out      string
		mlPort       int
		cc           *proxy.ClusterConnection
	}
	ps := []*px{{name: "proxy-a"}, {name: "proxy-b"}}
	for _, p := range ps {
		p.in, p.out, p.mlPort = freeAddr(), freeAddr(), udpTCPFreePort()
	}
	addrs := map[string]string{ps[0].name: ps[0].out, ps[1].name: ps[1].out}
	var probes []*fakes.Probe
	ctx, cancel := context.WithCancel(context.Background())
	defer cancel()
	for i, p := range ps {
		ml := &config.MemberlistConfig{Enabled: true, NodeName: p.name, BindAddr: "127.0.0.1", BindPort: p.mlPort, ProxyAddresses: addrs}
		if i > 0 {
			ml.JoinAddrs = []string{fmt.Sprintf("127.0.0.1:%d", ps[0].mlPort)}
		}
		cc, err := proxy.NewClusterConnection(ctx, config.ClusterConnConfig{Name: "verif-" + p.name,
			Local:  config.ClusterDefinition{ConnectionType: config.ConnTypeTCP, TcpClient: config.TCPTLSInfo{ConnectionString: L.lis.Addr().String()}, TcpServer: config.TCPTLSInfo{ConnectionString: p.out}},
			Remote: config.ClusterDefinition{ConnectionType: config.ConnTypeTCP, TcpClient: config.TCPTLSInfo{ConnectionString: R.lis.Addr().String()}, TcpServer: config.TCPTLSInfo{ConnectionString: p.in}},
			ShardCountConfig: config.ShardCountConfig{Mode: config.ShardCountRouting, LocalShardCount: int32(nL), RemoteShardCount: int32(nR)},
			MemberlistConfig: ml,
		}, func() *fakes.Probe { pr := fakes.NewProbe(seed + int64(i)); probes = append(probes, pr); return pr }())
		if err != nil {
			return nil, counts, "NewClusterConnection: " + err.Error()
		}
		p.cc = cc
		cc.Start()
	}
	// shard i of each cluster connects to instance (i mod 2)
	for i := 1; i <= nR; i++ {
		go R.runTarget(ctx, ps[i%2].in, i)
	}
	for i := 1; i <= nL; i++ {
		go L.runTarget(ctx, ps[i%2].out, i)
	}
	// ownership reaches the other instance with the next memberlist push/pull (15 s for the local profile,
	// 30 s at most); the intra-proxy streams are reconciled every second after that
	time.Sleep(36 * time.Second)
	close(hold)
	deadline := time.Now().Add(40 * time.Second)
	for time.Now().Before(deadline) {
		time.Sleep(200 * time.Millisecond)
		if recd.AllFinalAcked() {
			break
		}
	}
	time.Sleep(500 * time.Millisecond)
	vs, cs, done := recd.Summary()
	for k, v := range cs {
		counts[k] = v
	}
	for _, x := range vs {
		switch {
		case x.Prop == "C02" && (x.Sig == "duplicate-delivery" || x.Sig == "wrong-owner" || x.Sig == "task-never-delivered" || x.Sig == "unknown-task"):
			x.Prop, x.Sig = "C09", "cluster-routing:"+x.Sig
			viol = append(viol, x)
		}
	}
	if !done && len(viol) == 0 {
		if cs["tasks"] > 0 && cs["tasks_delivered"] < cs["tasks"] {
			inconclusive = fmt.Sprintf("only %d of %d tasks were delivered within the time allowed (ownership may not have propagated yet)", cs["tasks_delivered"], cs["tasks"])
		} else {
			inconclusive = "not every source was fully acknowledged within the time allowed"
		}
	}
	if done {
		counts["cluster_runs_completed"] = 1
	}
	for _, pr := range probes {
		for k, n := range pr.HitTable() {
			if strings.HasPrefix(k, "intraProxyStreamSender sendReplicationMessages started") {
				counts["messages_forwarded_between_instances"] += int64(n)
			}
			if strings.HasPrefix(k, "Forwarded ACK to shard owner via intra-proxy") {
				counts["acks_forwarded_between_instances"] += int64(n)
			}
		}
	}
	if done && counts["messages_forwarded_between_instances"] == 0 {
		inconclusive = "the run completed but nothing crossed between the instances"
	}
	cancel()
	time.Sleep(300 * time.Millisecond)
	return
}

func TestClusterRouting(t *testing.T) {
	out := rec.Default()
	n := 3
	if rec.Thorough() {
		n = 12
	}
	for idx := 0; idx < n; idx++ {
		name := fmt.Sprintf("cluster-routing/%d", idx)
		if !rec.Want(idx, name) {
			continue
		}
		out.Begin(name, map[string]any{"instances": 2, "nL": 2, "nR": 2})
		viol, counts, inc := clusterRouting(rec.Mix(rec.Seed(), name))
		l := rec.Line{Case: name, Viol: dedupe(viol), Counts: counts, Class: name}
		if inc != "" && len(viol) == 0 {
			l.Verdict, l.Why = rec.Inconclusive, inc
		}
		out.End(l)
	}
}
