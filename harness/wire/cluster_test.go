package wire

import (
	"context"
	"fmt"
	"net"
	"os"
	"regexp"
	"strings"
	"sync"
	"testing"
	"time"

	"go.temporal.io/server/api/adminservice/v1"
	"go.temporal.io/server/common/log/tag"
	"google.golang.org/grpc"

	"github.com/temporalio/s2s-proxy/config"
	"github.com/temporalio/s2s-proxy/proxy"
	"verifharness/fakes"
	"verifharness/rec"
	"verifharness/routesim"
)

// C09, routing clause with a reachable remote owner: two assembled proxy instances joined by a real
// memberlist on loopback, both connected to the same two fake clusters. Each Temporal shard's stream
// lands on one instance; tasks for a shard owned by the other instance must travel over the
// intra-proxy stream and arrive exactly once, and acknowledgements must find their way back.

func udpTCPFreePort() int { return freePort(true) }

// fwdFail: forwarding failures one instance reported for one (source, target shard) pair although it
// named a known owner with a known address
type fwdFail struct {
	n           int
	first, last time.Time
	owner, line string
}

var reFwdPair = regexp.MustCompile(`task-target-shard=(\(id: \d+, shard: \d+\)).*owner=(\S+)`)

// variant: "" (both instances start together, then all streams connect) | "late-joiner" (see below)
func clusterRouting(seed int64, variant string) (viol []rec.Violation, counts map[string]int64, inconclusive string) {
	counts = map[string]int64{}
	var failMu sync.Mutex
	fails := map[string]*fwdFail{}
	nL, nR := 2, 2
	sc := &routesim.Scenario{Class: "fair", Seed: seed, NL: nL, NR: nR, PeriodMS: 300, NWf: 11, Scripts: map[string][]routesim.Batch{}, Final: map[string]int64{}, Targets: map[string]routesim.TargetBeh{}, Window: 4}
	if variant == "shard-moves" {
		sc.Class, sc.Faults = "fault", []routesim.Fault{{Side: "none"}} // a moved stream may see re-sent tasks twice
	}
	recd := routesim.NewRecorder(sc)
	hold := make(chan struct{}) // sources wait for this before sending tasks (ownership must have propagated)
	mk := func(id, n int) *wireCluster {
		lis, _ := net.Listen("tcp", "127.0.0.1:0")
		c := &wireCluster{id: id, n: n, recd: recd, script: map[int][]routesim.Batch{}, final: map[int]int64{}, lis: lis, inc: map[int]int{}, nwf: 11, hold: hold}
		for i := 1; i <= n; i++ {
			idb := int64(100 * i)
			nb, gap := 10, 20
			if variant == "shard-moves" {
				nb, gap = 40, 50 // two seconds of traffic: the stream moves in the middle of it
			}
			for k := 0; k < nb; k++ {
				c.script[i] = append(c.script[i], routesim.Batch{IDs: []int64{idb}, High: idb + 1, WaitMS: gap})
				idb++
			}
			c.final[i] = idb
			sc.Scripts[c.name(i)], sc.Final[c.name(i)] = c.script[i], idb
		}
		c.srv = grpc.NewServer()
		adminservice.RegisterAdminServiceServer(c.srv, c)
		go c.srv.Serve(lis)
		return c
	}
	L, R := mk(1, nL), mk(2, nR)
	defer L.srv.Stop()
	defer R.srv.Stop()
	type px struct {
		name    string
		in, out string
		mlPort  int
		cc      *proxy.ClusterConnection
	}
	ps := []*px{{name: "proxy-a"}, {name: "proxy-b"}}
	for _, p := range ps {
		p.in, p.out, p.mlPort = freeAddr(), freeAddr(), udpTCPFreePort()
	}
	addrs := map[string]string{ps[0].name: ps[0].out, ps[1].name: ps[1].out}
	var probes []*fakes.Probe
	ctx, cancel := context.WithCancel(context.Background())
	defer cancel()
	startInst := func(i int) string {
		p := ps[i]
		ml := &config.MemberlistConfig{Enabled: true, NodeName: p.name, BindAddr: "127.0.0.1", BindPort: p.mlPort, ProxyAddresses: addrs}
		if i > 0 {
			ml.JoinAddrs = []string{fmt.Sprintf("127.0.0.1:%d", ps[0].mlPort)}
		}
		cc, err := proxy.NewClusterConnection(ctx, config.ClusterConnConfig{Name: "verif-" + p.name,
			Local:            config.ClusterDefinition{ConnectionType: config.ConnTypeTCP, TcpClient: config.TCPTLSInfo{ConnectionString: L.lis.Addr().String()}, TcpServer: config.TCPTLSInfo{ConnectionString: p.out}},
			Remote:           config.ClusterDefinition{ConnectionType: config.ConnTypeTCP, TcpClient: config.TCPTLSInfo{ConnectionString: R.lis.Addr().String()}, TcpServer: config.TCPTLSInfo{ConnectionString: p.in}},
			ShardCountConfig: config.ShardCountConfig{Mode: config.ShardCountRouting, LocalShardCount: int32(nL), RemoteShardCount: int32(nR)},
			MemberlistConfig: ml,
		}, func() *fakes.Probe {
			pr := fakes.NewProbe(seed + int64(i))
			pname := p.name
			var dbgF *os.File
			if dbg := os.Getenv("VERIF_WIRE_LOG"); dbg != "" {
				dbgF, _ = os.OpenFile(fmt.Sprintf("%s.%d.%s", dbg, seed, p.name), os.O_CREATE|os.O_WRONLY|os.O_TRUNC, 0o644)
			}
			var mu sync.Mutex
			pr.Sink = func(level, msg string, tags []tag.Tag) {
				if dbgF != nil {
					mu.Lock()
					fmt.Fprintf(dbgF, "%s %s %-5s %s %s\n", time.Now().Format("15:04:05.000"), pname, level, msg, fakes.TagString(tags))
					mu.Unlock()
				}
				if strings.HasPrefix(msg, "Failed to forward replication messages to shard owner via intra-proxy") {
					ts := fakes.TagString(tags)
					if m := reFwdPair.FindStringSubmatch(ts); m != nil {
						key := pname + " -> " + m[2] + " target " + m[1]
						failMu.Lock()
						ff := fails[key]
						if ff == nil {
							ff = &fwdFail{first: time.Now(), owner: m[2]}
							fails[key] = ff
						}
						ff.n++
						ff.last = time.Now()
						if len(ts) > 400 {
							ts = ts[:400]
						}
						ff.line = msg + " " + ts
						failMu.Unlock()
					}
				}
			}
			probes = append(probes, pr)
			return pr
		}())
		if err != nil {
			return "NewClusterConnection: " + err.Error()
		}
		p.cc = cc
		cc.Start()
		return ""
	}
	// shard i of each cluster connects to instance (i mod 2)
	moveCtx, moveCancel := context.WithCancel(ctx) // the stream of L:1 (on instance b) that later moves to instance a
	defer moveCancel()
	connectStreams := func(inst int) {
		for i := 1; i <= nR; i++ {
			if i%2 == inst {
				go R.runTarget(ctx, ps[inst].in, i)
			}
		}
		for i := 1; i <= nL; i++ {
			if i%2 == inst {
				if variant == "shard-moves" && i == 1 {
					go L.runTarget(moveCtx, ps[inst].out, i)
					continue
				}
				go L.runTarget(ctx, ps[inst].out, i)
			}
		}
	}
	if variant == "late-joiner" {
		// instance a is up and serving its shards; instance b then starts, joins (its state is still empty
		// when the join exchanges states) and only afterwards gets its shards' streams - a rolling restart
		if e := startInst(0); e != "" {
			return nil, counts, e
		}
		connectStreams(0)
		time.Sleep(2 * time.Second)
		if e := startInst(1); e != "" {
			return nil, counts, e
		}
		time.Sleep(1500 * time.Millisecond)
		connectStreams(1)
	} else {
		for i := range ps {
			if e := startInst(i); e != "" {
				return nil, counts, e
			}
		}
		connectStreams(0)
		connectStreams(1)
	}
	// ownership reaches the other instance with the next memberlist push/pull (15 s for the local profile,
	// 30 s at most); the intra-proxy streams are reconciled every second after that
	time.Sleep(36 * time.Second)
	movedAt := int64(-1)
	close(hold)
	deadline := time.Now().Add(40 * time.Second)
	if variant == "shard-moves" {
		// while tasks flow, Temporal re-opens the stream of target shard L:1 against the OTHER instance (its
		// frontend / load balancer moved it): instance b loses the shard, instance a claims it with a newer
		// registration; tasks for L:1 that reach b from then on have to cross to a. Ownership reaches b with
		// the next push/pull, so this variant is given longer.
		time.Sleep(600 * time.Millisecond)
		moveCancel()
		movedAt = recd.NowMS()
		time.Sleep(300 * time.Millisecond)
		go L.runTargetInc(ctx, ps[0].out, 1, 2)
		counts["target_streams_moved_between_instances"]++
		deadline = time.Now().Add(85 * time.Second)
	}
	for time.Now().Before(deadline) {
		time.Sleep(200 * time.Millisecond)
		if recd.AllFinalAcked() {
			break
		}
	}
	time.Sleep(500 * time.Millisecond)
	vs, cs, done := recd.Summary()
	if movedAt >= 0 {
		// tasks the sources sent a second or more after the stream had moved (the losing instance has seen its
		// stream end by then; earlier ones fall into the window of the recorded finding F-C04a) must all arrive
		sent, got := recd.SentAfter(movedAt + 1000)
		counts["tasks_sent_after_the_move"] = int64(len(sent))
		var missing []string
		for _, m := range sent {
			if !got[m] {
				missing = append(missing, m)
			}
		}
		counts["tasks_sent_after_the_move_delivered"] = int64(len(sent) - len(missing))
		if len(missing) > 0 {
			if len(missing) > 12 {
				missing = append(missing[:12], "...")
			}
			viol = append(viol, rec.Violation{Prop: "C09", Sig: "cluster-routing:task-sent-after-stream-moved-never-delivered",
				What: fmt.Sprintf("target shard L:1's stream moved from instance b to instance a; %d of %d tasks that the sources sent a second or more after the move never reached any target stream within 85 s: %v", len(sent)-int(counts["tasks_sent_after_the_move_delivered"]), len(sent), missing),
				Witness: map[string]any{"variant": variant, "seed": seed, "missing": missing}})
		}
		done = done || len(missing) == 0 && len(sent) > 0
	}
	for k, v := range cs {
		counts[k] = v
	}
	for _, x := range vs {
		switch {
		case x.Prop == "C02" && (x.Sig == "duplicate-delivery" || x.Sig == "wrong-owner" || x.Sig == "task-never-delivered" || x.Sig == "unknown-task"):
			x.Prop, x.Sig = "C09", "cluster-routing:"+x.Sig
			viol = append(viol, x)
		}
	}
	// a message for a shard whose owner is known (the instance names it, with its address) and up - the
	// cluster has not changed since start - must be handed to that owner. Reports of "undelivered" while a
	// peer stream is being set up are expected; the same pair failing for 20 s and up to the end is not.
	end := time.Now()
	failMu.Lock()
	for key, ff := range fails {
		counts["forward_failures_reported"] += int64(ff.n)
		if !done && ff.n >= 5 && ff.last.Sub(ff.first) > 20*time.Second && end.Sub(ff.last) < 6*time.Second {
			viol = append(viol, rec.Violation{Prop: "C09", Sig: "cluster-routing:known-owner-never-handed-message",
				What: fmt.Sprintf("%s: %d forwarding attempts over %.0f s, up to the end of the run, were all reported undelivered although the instance knew the owner and its address and the membership never changed; %d of %d tasks never arrived (variant %q)",
					key, ff.n, ff.last.Sub(ff.first).Seconds(), cs["tasks"]-cs["tasks_delivered"], cs["tasks"], variant),
				Witness: map[string]any{"pair": key, "attempts": ff.n, "last_report": ff.line, "variant": variant, "seed": seed}})
		}
	}
	failMu.Unlock()
	if !done && len(viol) == 0 {
		if cs["tasks"] > 0 && cs["tasks_delivered"] < cs["tasks"] {
			inconclusive = fmt.Sprintf("only %d of %d tasks were delivered within the time allowed (ownership may not have propagated yet)", cs["tasks_delivered"], cs["tasks"])
		} else {
			inconclusive = "not every source was fully acknowledged within the time allowed"
		}
	}
	if done {
		counts["cluster_runs_completed"] = 1
	}
	for _, pr := range probes {
		for k, n := range pr.HitTable() {
			if strings.HasPrefix(k, "intraProxyStreamSender sendReplicationMessages started") {
				counts["messages_forwarded_between_instances"] += int64(n)
			}
			if strings.HasPrefix(k, "Forwarded ACK to shard owner via intra-proxy") {
				counts["acks_forwarded_between_instances"] += int64(n)
			}
		}
	}
	if done && counts["messages_forwarded_between_instances"] == 0 {
		inconclusive = "the run completed but nothing crossed between the instances"
	}
	cancel()
	time.Sleep(300 * time.Millisecond)
	return
}

func TestClusterRouting(t *testing.T) {
	out := rec.Default()
	n := 3
	if rec.Thorough() {
		n = 12
	}
	for idx := 0; idx < n; idx++ {
		name := fmt.Sprintf("cluster-routing/%d", idx)
		if !rec.Want(idx, name) {
			continue
		}
		variant := []string{"", "late-joiner", "shard-moves", "late-joiner"}[idx%4]
		out.Begin(name, map[string]any{"instances": 2, "nL": 2, "nR": 2, "variant": variant})
		viol, counts, inc := clusterRouting(rec.Mix(rec.Seed(), name), variant)
		counts["runs_variant_"+map[string]string{"": "together", "late-joiner": "late_joiner", "shard-moves": "shard_moves"}[variant]] = 1
		l := rec.Line{Case: name, Viol: dedupe(viol), Counts: counts, Class: name}
		if inc != "" && len(viol) == 0 {
			l.Verdict, l.Why = rec.Inconclusive, inc
		}
		out.End(l)
	}
}
