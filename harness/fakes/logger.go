package fakes

import (
	"fmt"
	"hash/fnv"
	"runtime"
	"strings"
	"sync"
	"time"

	"go.temporal.io/server/common/log"
	"go.temporal.io/server/common/log/tag"

	"github.com/temporalio/s2s-proxy/logging"
)

// Probe is a logging.LoggerProvider + log.Logger that (a) counts every message the code
// logs (probe hit table), (b) optionally forwards it to a sink (event log) and (c) can
// park the calling goroutine for a pseudo-random delay at messages selected by a
// deterministic function of (seed, message, occurrence) - systematic pre-emption at the
// code's own log points with no source change. Delays use time.Sleep, i.e. virtual time
// inside a synctest bubble.
type Probe struct {
	mu     sync.Mutex
	Seed   int64
	Hits   map[string]int
	Sink   func(level, msg string, tags []tag.Tag) // called outside the probe mutex
	Fatals []string

	// DelayPermille: chance (per 1000) that a log call parks; MaxDelay: upper bound.
	DelayPermille int
	MaxDelay      time.Duration
	// Only, when non-empty, restricts parking to messages containing one of these substrings.
	Only []string
	// NoPark: messages the code logs while holding one of its own mutexes. Parking there in
	// virtual time would hang the bubble (a goroutine waiting for a mutex is not durably
	// blocked, so the clock could never advance) - the probe yields the processor instead.
	NoPark []string
	// Script: exact parking decisions: message substring -> occurrence (1-based) -> delay.
	Script map[string]map[int]time.Duration
	// OnHit, when set, is called for every message (outside the mutex) before any delay.
	OnHit func(msg string, occurrence int)
}

func NewProbe(seed int64) *Probe {
	return &Probe{Seed: seed, Hits: map[string]int{}, NoPark: []string{
		"Sender received ReplicationTasks",    // proxy_streams.go: inside s.mu
		"Removed remote send channel",         // shard_manager.go: inside remoteSendChannelsMu
		"Skipped removing remote send channel", // idem
		"Skipped removing local ack channel",  // inside localAckChannelsMu
	}}
}

func (p *Probe) Get(logging.LogComponentName) log.Logger  { return p }
func (p *Probe) With(...tag.Tag) logging.LoggerProvider   { return p }

func normalise(msg string) string {
	// messages built with Sprintf carry ids/pointers: keep the static prefix
	if i := strings.IndexAny(msg, ":=["); i > 12 {
		msg = msg[:i]
	}
	if len(msg) > 60 {
		msg = msg[:60]
	}
	return msg
}

func (p *Probe) hit(level, msg string, tags []tag.Tag) {
	key := normalise(msg)
	p.mu.Lock()
	p.Hits[key]++
	n := p.Hits[key]
	var d time.Duration
	if p.Script != nil {
		for sub, occ := range p.Script {
			if strings.Contains(msg, sub) {
				if dd, ok := occ[n]; ok {
					d = dd
				}
			}
		}
	}
	if d == 0 && p.DelayPermille > 0 && p.MaxDelay > 0 {
		ok := len(p.Only) == 0
		for _, s := range p.Only {
			if strings.Contains(msg, s) {
				ok = true
			}
		}
		if ok {
			h := fnv.New64a()
			fmt.Fprintf(h, "%d|%s|%d", p.Seed, key, n)
			v := h.Sum64()
			if int(v%1000) < p.DelayPermille {
				d = time.Duration((v>>10)%uint64(p.MaxDelay)) + time.Microsecond
			}
		}
	}
	sink, onHit := p.Sink, p.OnHit
	p.mu.Unlock()
	if onHit != nil {
		onHit(msg, n)
	}
	if sink != nil {
		sink(level, msg, tags)
	}
	if d > 0 {
		for _, np := range p.NoPark {
			if strings.Contains(msg, np) {
				for i := 0; i < 8; i++ {
					runtime.Gosched()
				}
				return
			}
		}
		time.Sleep(d)
	}
}

func (p *Probe) Debug(msg string, tags ...tag.Tag) { p.hit("debug", msg, tags) }
func (p *Probe) Info(msg string, tags ...tag.Tag)  { p.hit("info", msg, tags) }
func (p *Probe) Warn(msg string, tags ...tag.Tag)  { p.hit("warn", msg, tags) }
func (p *Probe) Error(msg string, tags ...tag.Tag) { p.hit("error", msg, tags) }
func (p *Probe) DPanic(msg string, tags ...tag.Tag) { p.hit("dpanic", msg, tags) }
func (p *Probe) Panic(msg string, tags ...tag.Tag) {
	p.hit("panic", msg, tags)
	panic("logger.Panic: " + msg)
}
func (p *Probe) Fatal(msg string, tags ...tag.Tag) {
	p.mu.Lock()
	p.Fatals = append(p.Fatals, msg)
	p.mu.Unlock()
	p.hit("fatal", msg, tags)
	// production would os.Exit(1) here; surface it as a crash attributed to the running case
	panic("logger.Fatal (process would exit): " + msg)
}

// HitTable returns a copy of the probe hit counts.
func (p *Probe) HitTable() map[string]int {
	p.mu.Lock()
	defer p.mu.Unlock()
	out := make(map[string]int, len(p.Hits))
	for k, v := range p.Hits {
		out[k] = v
	}
	return out
}

// TagString renders tags for event logs.
func TagString(tags []tag.Tag) string {
	var sb strings.Builder
	for _, t := range tags {
		fmt.Fprintf(&sb, " %s=%v", t.Key(), t.Value())
	}
	return sb.String()
}
