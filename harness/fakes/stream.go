// Package fakes: the trusted base of the in-memory engines - a stream pair with gRPC
// semantics and a probe logger. Kept small; see DESIGN.md §2.7 and the three recording
// rules in §2.4 (record on the proxy's side of the hand-over, deep-copy every message,
// check the context before offering the next message).
package fakes

import (
	"context"
	"io"
	"sync"

	"go.temporal.io/server/api/adminservice/v1"
	"google.golang.org/grpc"
	"google.golang.org/grpc/codes"
	"google.golang.org/grpc/metadata"
	"google.golang.org/grpc/status"
	"google.golang.org/protobuf/proto"
)

type Req = adminservice.StreamWorkflowReplicationMessagesRequest
type Resp = adminservice.StreamWorkflowReplicationMessagesResponse

// ---------------------------------------------------------------------------------------
// ServerSide: what a proxy handler sees when a (fake) peer initiated a stream to it.
// The harness is the client: it feeds requests with Offer, reads responses from Out,
// half-closes with HalfClose, cancels through the context it passed in.

type ServerSide struct {
	grpc.ServerStream
	ctx context.Context

	in  chan *Req
	out chan *Resp

	mu       sync.Mutex
	inClosed bool
	sendErr  error // injected: Send fails with this from now on

	// OnRecv is called (if set) just before Recv returns a message to the proxy;
	// OnSend on entry to Send. Both run on the proxy's goroutine.
	OnRecv func(*Req)
	OnSend func(*Resp)
}

func NewServerSide(ctx context.Context, window int) *ServerSide {
	return &ServerSide{ctx: ctx, in: make(chan *Req, window), out: make(chan *Resp, window)}
}

func (s *ServerSide) Context() context.Context     { return s.ctx }
func (s *ServerSide) SetHeader(metadata.MD) error  { return nil }
func (s *ServerSide) SendHeader(metadata.MD) error { return nil }
func (s *ServerSide) SetTrailer(metadata.MD)       {}

func (s *ServerSide) Recv() (*Req, error) {
	select {
	case m, ok := <-s.in:
		if !ok {
			return nil, io.EOF
		}
		if s.OnRecv != nil {
			s.OnRecv(m)
		}
		return m, nil
	case <-s.ctx.Done():
		return nil, status.Error(codes.Canceled, "context canceled")
	}
}

func (s *ServerSide) Send(m *Resp) error {
	s.mu.Lock()
	err := s.sendErr
	s.mu.Unlock()
	if err != nil {
		return err
	}
	if s.ctx.Err() != nil {
		return status.Error(codes.Canceled, "context canceled")
	}
	c := proto.Clone(m).(*Resp)
	if s.OnSend != nil {
		s.OnSend(c)
	}
	select {
	case s.out <- c:
		return nil
	case <-s.ctx.Done():
		return status.Error(codes.Canceled, "context canceled")
	}
}

// Offer hands a request to the proxy (blocks while the window is full). False when the
// stream's context ended first.
func (s *ServerSide) Offer(m *Req) bool {
	if s.ctx.Err() != nil {
		return false
	}
	select {
	case s.in <- proto.Clone(m).(*Req):
		return true
	case <-s.ctx.Done():
		return false
	}
}

// HalfClose makes the proxy's Recv return io.EOF after the queued requests.
func (s *ServerSide) HalfClose() {
	s.mu.Lock()
	defer s.mu.Unlock()
	if !s.inClosed {
		s.inClosed = true
		close(s.in)
	}
}

func (s *ServerSide) Out() <-chan *Resp { return s.out }

// FailSends makes every later Send by the proxy return err.
func (s *ServerSide) FailSends(err error) {
	s.mu.Lock()
	s.sendErr = err
	s.mu.Unlock()
}

// ---------------------------------------------------------------------------------------
// ClientSide: what the proxy gets back from adminClient.StreamWorkflowReplicationMessages.
// The harness is the server: it reads requests from In, sends responses with Offer and
// ends the stream with Finish(err) (nil => io.EOF at the proxy).

type ClientSide struct {
	grpc.ClientStream
	ctx context.Context

	in  chan *Resp // towards the proxy
	out chan *Req  // from the proxy

	mu        sync.Mutex
	halfOnce  sync.Once
	half      chan struct{}
	doneOnce  sync.Once
	done      chan struct{}
	finalErr  error
	sendErr   error
	OnRecv    func(*Resp) // before Recv returns a message to the proxy
	OnSend    func(*Req)  // on entry to Send
	OnHalf    func()
	EOFOnHalf bool // fake server ends the stream (clean EOF) as soon as the proxy half-closes
}

func NewClientSide(ctx context.Context, window int) *ClientSide {
	return &ClientSide{ctx: ctx, in: make(chan *Resp, window), out: make(chan *Req, window), half: make(chan struct{}), done: make(chan struct{})}
}

func (c *ClientSide) Context() context.Context     { return c.ctx }
func (c *ClientSide) Header() (metadata.MD, error) { return metadata.MD{}, nil }
func (c *ClientSide) Trailer() metadata.MD         { return metadata.MD{} }

func (c *ClientSide) CloseSend() error {
	c.halfOnce.Do(func() {
		close(c.half)
		if c.OnHalf != nil {
			c.OnHalf()
		}
		if c.EOFOnHalf {
			c.Finish(nil)
		}
	})
	return nil
}

func (c *ClientSide) Recv() (*Resp, error) {
	// a finished stream still delivers what was queued before the end
	select {
	case m := <-c.in:
		if c.OnRecv != nil {
			c.OnRecv(m)
		}
		return m, nil
	default:
	}
	select {
	case m := <-c.in:
		if c.OnRecv != nil {
			c.OnRecv(m)
		}
		return m, nil
	case <-c.done:
		select {
		case m := <-c.in:
			if c.OnRecv != nil {
				c.OnRecv(m)
			}
			return m, nil
		default:
		}
		c.mu.Lock()
		err := c.finalErr
		c.mu.Unlock()
		if err == nil {
			return nil, io.EOF
		}
		return nil, err
	case <-c.ctx.Done():
		return nil, status.Error(codes.Canceled, "context canceled")
	}
}

func (c *ClientSide) Send(m *Req) error {
	c.mu.Lock()
	err := c.sendErr
	c.mu.Unlock()
	if err != nil {
		return err
	}
	select {
	case <-c.done:
		return io.EOF // gRPC: Send on a finished stream reports io.EOF, the status comes from Recv
	default:
	}
	select {
	case <-c.half:
		return status.Error(codes.Internal, "SendMsg called after CloseSend")
	default:
	}
	if c.ctx.Err() != nil {
		return status.Error(codes.Canceled, "context canceled")
	}
	cl := proto.Clone(m).(*Req)
	if c.OnSend != nil {
		c.OnSend(cl)
	}
	select {
	case c.out <- cl:
		return nil
	case <-c.done:
		return io.EOF
	case <-c.ctx.Done():
		return status.Error(codes.Canceled, "context canceled")
	}
}

// Offer hands a response to the proxy; false when the stream ended first.
func (c *ClientSide) Offer(m *Resp) bool {
	if c.ctx.Err() != nil {
		return false
	}
	select {
	case <-c.done:
		return false
	default:
	}
	select {
	case c.in <- proto.Clone(m).(*Resp):
		return true
	case <-c.ctx.Done():
		return false
	case <-c.done:
		return false
	}
}

func (c *ClientSide) In() <-chan *Req           { return c.out }
func (c *ClientSide) HalfClosed() <-chan struct{} { return c.half }
func (c *ClientSide) Done() <-chan struct{}       { return c.done }

// Finish ends the stream from the server side: nil => clean EOF, else a status error.
func (c *ClientSide) Finish(err error) {
	c.doneOnce.Do(func() {
		c.mu.Lock()
		c.finalErr = err
		c.mu.Unlock()
		close(c.done)
	})
}

func (c *ClientSide) FailSends(err error) {
	c.mu.Lock()
	c.sendErr = err
	c.mu.Unlock()
}
